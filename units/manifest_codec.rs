//@ UNIT manifest_codec
// The manifest part of the version file: `Version::encode_into` (its first five sections) writes format version 3, the tree type, the
// level count and the filter hash type, and `Manifest::decode_from` (src/manifest.rs), reading a version file whose sections hold what
// was written, accepts it and returns exactly that: `FormatVersion::V3` (the value `Tree::recover` insists on), the tree type written,
// the level count written (7) - so a version file written by this code base is never refused on reopen.  FormatVersion <-> u8,
// TreeType <-> u8 and ChecksumType -> u8 are the crate's own conversions.  Obligations C04.16, C05.12
use vstd::prelude::*;
verus! {
global size_of usize == 8;
// ---------------- prelude (TRUSTED), as in unit version_codec ----------------
pub enum Error { Io, Unrecoverable, InvalidVersion(u8), InvalidTag((&'static str, u8)) }
/// a typed field of a section: byteorder writes it, byteorder reads it back (R13); `Bytes` is an opaque run of bytes
pub enum Field { U8(u8), Bytes }
#[derive(PartialEq, Eq, Structural, Clone, Copy)]
pub enum SectionName { FormatVersion, CrateVersion, TreeType, LevelCount, FilterHashType, Tables }
pub type Sections = Seq<(SectionName, Seq<Field>)>;
/// sfa: the first section of that name
pub open spec fn lookup(a: Sections, name: SectionName) -> Option<Seq<Field>> decreases a.len()
{ if a.len() == 0 { None } else if a[0].0 == name { Some(a[0].1) } else { lookup(a.skip(1), name) } }
#[verifier::external_body] pub struct Path { p: u8 }
pub struct SfaReader { pub ghost secs: Sections }
pub struct Toc { pub ghost secs: Sections }
pub struct TocEntry { pub ghost fields: Seq<Field> }
pub struct SectionReader { pub ghost rest: Seq<Field> }
impl SfaReader { #[verifier::external_body] pub fn toc(&self) -> (r: &Toc) ensures r.secs == self.secs { unimplemented!() } }
impl Toc {
    #[verifier::external_body]
    pub fn section(&self, name: SectionName) -> (r: Option<&TocEntry>)
        ensures r is Some == lookup(self.secs, name) is Some, r is Some ==> r->0.fields == lookup(self.secs, name)->0
    { unimplemented!() }
}
impl TocEntry {
    #[verifier::external_body]
    pub fn buf_reader(&self, path: &Path) -> (r: Result<SectionReader, Error>) ensures r is Ok ==> r->Ok_0.rest == self.fields, r is Err ==> r->Err_0 is Io { unimplemented!() }
}
impl SectionReader {
    #[verifier::external_body] pub fn read_u8(&mut self) -> (r: Result<u8, Error>)
        ensures r is Ok ==> old(self).rest.len() > 0, r is Ok && old(self).rest[0] is U8 ==> r->Ok_0 == old(self).rest[0]->U8_0 && final(self).rest == old(self).rest.skip(1), r is Err ==> r->Err_0 is Io { unimplemented!() }
    /// `.bytes().collect::<Result<Vec<_>, _>>()`: all remaining bytes of the section (for a section of u8 fields: their values)
    #[verifier::external_body] pub fn read_all(self) -> (r: Result<Vec<u8>, Error>)
        ensures r is Ok && (forall|i: int| 0 <= i < self.rest.len() ==> (#[trigger] self.rest[i]) is U8) ==> r->Ok_0@.len() == self.rest.len() && forall|i: int| 0 <= i < self.rest.len() ==> r->Ok_0@[i] == (#[trigger] self.rest[i])->U8_0, r is Err ==> r->Err_0 is Io { unimplemented!() }
}
/// sfa::Writer: the sections closed so far and the open one (R13)
pub struct SfaWriter { pub ghost done: Sections, pub ghost name: Option<SectionName>, pub ghost cur: Seq<Field> }
pub open spec fn closed(w: SfaWriter) -> Sections { match w.name { Some(n) => w.done.push((n, w.cur)), None => w.done } }
impl SfaWriter {
    #[verifier::external_body] pub fn start(&mut self, name: SectionName) -> (r: Result<(), Error>)
        ensures r is Ok ==> final(self).done == closed(*old(self)) && final(self).name == Some(name) && final(self).cur == Seq::<Field>::empty() { Ok(()) }
    #[verifier::external_body] pub fn write_all(&mut self, b: &[u8]) -> (r: Result<(), Error>)
        ensures r is Ok ==> final(self).done == old(self).done && final(self).name == old(self).name && final(self).cur == old(self).cur.push(Field::Bytes) { Ok(()) }
    #[verifier::external_body] pub fn write_u8(&mut self, v: u8) -> (r: Result<(), Error>)
        ensures r is Ok ==> final(self).done == old(self).done && final(self).name == old(self).name && final(self).cur == old(self).cur.push(Field::U8(v)) { Ok(()) }
}
#[verifier::external_body] pub fn crate_version_bytes() -> (r: Vec<u8>) { Vec::new() }
/// `assert_eq!(a, b, ..)` / `opt.expect(..)`: execution continues only if the condition holds / with Some
#[verifier::external_body] fn rt_check(c: bool) ensures c { assert!(c); }
#[verifier::external_body] fn opt_expect_rt<T>(o: Option<T>) -> (r: T) ensures o == Some(r) { o.expect("") }

// ---------------- the crate's own conversions ----------------
//@ FROM src/format_version.rs :: - :: enum FormatVersion
/*+*/#[derive(PartialEq, Eq, Structural)]/*-*/
enum FormatVersion {
    /// Version for 1.x.x releases
    V1 = 1,

    /// Version for 2.x.x releases
    V2,

    /// Version for 3.x.x releases
    V3,
}
//@ END
spec fn fv_code(v: FormatVersion) -> u8 { match v { FormatVersion::V1 => 1, FormatVersion::V2 => 2, FormatVersion::V3 => 3 } }
impl FormatVersion {
//@ FROM src/format_version.rs :: impl From < FormatVersion > for u8 :: fn from :: OBL C04.16
//@ SUBST `-> Self` ==> `-> u8`
    fn from(value: FormatVersion) -> /*+*/(r:/*-*/ u8/*+*/) ensures r == fv_code(value)/*-*/ {
        match value {
            FormatVersion::V1 => 1,
            FormatVersion::V2 => 2,
            FormatVersion::V3 => 3,
        }
    }
//@ END
//@ FROM src/format_version.rs :: impl TryFrom < u8 > for FormatVersion :: fn try_from :: OBL C04.16
//@ SUBST `Self :: Error` ==> `()`
    fn try_from(value: u8) -> /*+*/(r:/*-*/ Result<Self, ()>/*+*/) ensures forall|v: FormatVersion| value == fv_code(v) ==> r == Ok::<FormatVersion, ()>(v)/*-*/ {
        match value {
            1 => Ok(Self::V1),
            2 => Ok(Self::V2),
            3 => Ok(Self::V3),
            _ => Err(()),
        }
    }
//@ END
}
#[derive(Clone, Copy, PartialEq, Eq, Structural)]
pub enum TreeType { Standard, Blob }
pub open spec fn tt_code(t: TreeType) -> u8 { match t { TreeType::Standard => 0, TreeType::Blob => 1 } }
impl TreeType {
//@ FROM src/config/mod.rs :: impl From < TreeType > for u8 :: fn from :: OBL C04.16
//@ SUBST `-> Self` ==> `-> u8`
    fn from(val: TreeType) -> /*+*/(r:/*-*/ u8/*+*/) ensures r == tt_code(val)/*-*/ {
        match val {
            TreeType::Standard => 0,
            TreeType::Blob => 1,
        }
    }
//@ END
//@ FROM src/config/mod.rs :: impl TryFrom < u8 > for TreeType :: fn try_from :: OBL C04.16
//@ SUBST `Self :: Error` ==> `()`
    fn try_from(value: u8) -> /*+*/(r:/*-*/ Result<Self, ()>/*+*/) ensures forall|t: TreeType| value == tt_code(t) ==> r == Ok::<TreeType, ()>(t)/*-*/ {
        match value {
            0 => Ok(Self::Standard),
            1 => Ok(Self::Blob),
            _ => Err(()),
        }
    }
//@ END
}
pub enum ChecksumType { Xxh3 }
impl ChecksumType {
//@ FROM src/checksum.rs :: impl From < ChecksumType > for u8 :: fn from :: OBL C04.16
//@ SUBST `-> Self` ==> `-> u8`
    fn from(val: ChecksumType) -> /*+*/(r:/*-*/ u8/*+*/) ensures r == 0/*-*/ {
        match val {
            ChecksumType::Xxh3 => 0,
        }
    }
//@ END
}

/// the manifest sections of a version with this tree type and level count
pub open spec fn manifest_sections(tt: TreeType, levels: u8) -> Sections {
    seq![(SectionName::FormatVersion, seq![Field::U8(3)]), (SectionName::CrateVersion, seq![Field::Bytes]), (SectionName::TreeType, seq![Field::U8(tt_code(tt))]),
         (SectionName::LevelCount, seq![Field::U8(levels)]), (SectionName::FilterHashType, seq![Field::U8(0)])]
}
pub struct Version { pub tree_type: TreeType, pub ghost levels: int, pub lc: usize }
impl Version { fn level_count(&self) -> (r: usize) ensures r == self.lc { self.lc } }

//@ WRAPPER_BEGIN
impl Version {
    /// wrapper (generated) around the manifest statements of Version::encode_into (up to the start of the section "tables")
    fn encode_manifest(&self, writer: &mut SfaWriter) -> (r: Result<(), Error>)
        requires self.lc < 256
        ensures r is Ok ==> final(writer).done == closed(*old(writer)) + manifest_sections(self.tree_type, self.lc as u8)
            && final(writer).name == Some(SectionName::Tables) && final(writer).cur == Seq::<Field>::empty(),
    {
//@ FROM src/version/mod.rs :: impl Version :: fn encode_into :: STMTS `writer . start ( "format_version" ) ? ;` .. `writer . start ( "tables" ) ? ;` :: OBL C04.16, C05.12
//@ SUBST `env ! ( "CARGO_PKG_VERSION" ) . as_bytes ( )` ==> `crate_version_bytes().as_slice()`
//@ SUBST `u8 :: from ( ChecksumType :: Xxh3 )` ==> `ChecksumType::from(ChecksumType::Xxh3)`
//@ SUBST `FormatVersion :: V3 . into ( )` ==> `FormatVersion::from(FormatVersion::V3)`
//@ SUBST `self . tree_type . into ( )` ==> `TreeType::from(self.tree_type)`
//@ SUBST `"format_version"` ==> `SectionName::FormatVersion`
//@ SUBST `"crate_version"` ==> `SectionName::CrateVersion`
//@ SUBST `"tree_type"` ==> `SectionName::TreeType`
//@ SUBST `"level_count"` ==> `SectionName::LevelCount`
//@ SUBST `"filter_hash_type"` ==> `SectionName::FilterHashType`
//@ SUBST `"tables"` ==> `SectionName::Tables`
        /*+*/let ghost d0 = closed(*writer);/*-*/
        writer.start(SectionName::FormatVersion)?;
        writer.write_u8(FormatVersion::from(FormatVersion::V3))?;
        /*+*/proof { assert(writer.cur =~= seq![Field::U8(3)]); }/*-*/

        writer.start(SectionName::CrateVersion)?;
        writer.write_all(crate_version_bytes().as_slice())?;
        /*+*/proof { assert(writer.cur =~= seq![Field::Bytes]); }/*-*/

        writer.start(SectionName::TreeType)?;
        writer.write_u8(TreeType::from(self.tree_type))?;
        /*+*/proof { assert(writer.cur =~= seq![Field::U8(tt_code(self.tree_type))]); }/*-*/

        writer.start(SectionName::LevelCount)?;
        writer.write_u8(self.level_count() as u8)?;
        /*+*/proof { assert(writer.cur =~= seq![Field::U8(self.lc as u8)]); }/*-*/

        writer.start(SectionName::FilterHashType)?;
        writer.write_u8(ChecksumType::from(ChecksumType::Xxh3))?;
        /*+*/proof { assert(writer.cur =~= seq![Field::U8(0)]); }/*-*/

        writer.start(SectionName::Tables)?;
        /*+*/proof { assert(writer.done =~= d0 + manifest_sections(self.tree_type, self.lc as u8)); }/*-*/
//@ END
        Ok(())
    }
}
//@ WRAPPER_END

//@ FROM src/manifest.rs :: - :: struct Manifest
struct Manifest {
    version: FormatVersion,
    tree_type: TreeType,
    level_count: u8,
}
//@ END
proof fn lemma_lookup_at(a: Sections, name: SectionName, i: int)
    requires 0 <= i < a.len(), a[i].0 == name, forall|k: int| 0 <= k < i ==> (#[trigger] a[k]).0 != name
    ensures lookup(a, name) == Some(a[i].1)
    decreases i
{
    if i > 0 {
        assert(a.skip(1)[i - 1] == a[i]);
        assert forall|k: int| 0 <= k < i - 1 implies (#[trigger] a.skip(1)[k]).0 != name by { assert(a.skip(1)[k] == a[k + 1]); }
        lemma_lookup_at(a.skip(1), name, i - 1);
    }
}
impl Manifest {
//@ FROM src/manifest.rs :: impl Manifest :: fn decode_from :: OBL C04.16, C05.12
//@ SUBST `crate :: Error` ==> `Error`
//@ SUBST `reader : & sfa :: Reader` ==> `reader: &SfaReader`
//@ SUBST `b"format_version"` ==> `SectionName::FormatVersion`
//@ SUBST `b"tree_type"` ==> `SectionName::TreeType`
//@ SUBST `b"level_count"` ==> `SectionName::LevelCount`
//@ SUBST `b"filter_hash_type"` ==> `SectionName::FilterHashType`
//@ SUBST `let section = toc . section ( $1 ) . expect ( $2 ) ;` ==> `let section = opt_expect_rt(toc.section($1));`
//@ SUBST `FormatVersion :: try_from ( version ) . map_err ( | ( ) | Error :: InvalidVersion ( version ) ) ?` ==> `format_version_of(version)?`
//@ SUBST `tree_type . try_into ( ) . map_err ( | ( ) | Error :: InvalidTag ( ( "TreeType" , tree_type ) ) ) ?` ==> `tree_type_of(tree_type)?`
//@ SUBST `assert_eq ! ( 7 , level_count , "level count should be 7" ) ;` ==> `rt_check(7 == level_count);`
//@ SUBST `section . buf_reader ( path ) ? . bytes ( ) . collect :: < Result < Vec < _ > , _ >> ( ) ?` ==> `section.buf_reader(path)?.read_all()?`
//@ SUBST `assert_eq ! ( & [ u8 :: from ( ChecksumType :: Xxh3 ) ] , & * filter_hash_type , "filter_hash_type should be XXH3" ) ;` ==> `rt_check(filter_hash_type.len() == 1 && filter_hash_type[0] == ChecksumType::from(ChecksumType::Xxh3));`
    fn decode_from(path: &Path, reader: &SfaReader/*+*/, Ghost(tt): Ghost<TreeType>, Ghost(levels): Ghost<u8>, Ghost(rest): Ghost<Sections>/*-*/) -> /*+*/(r:/*-*/ Result<Self, Error>/*+*/)
        requires reader.secs == manifest_sections(tt, levels) + rest,
        ensures
            // a manifest written by encode_into is accepted, with the format version Tree::recover insists on, the tree type and the level count written
            r is Ok ==> r->Ok_0.version == FormatVersion::V3 && r->Ok_0.tree_type == tt && r->Ok_0.level_count == levels && levels == 7,
            // ... and is never refused for its content (only an I/O error can fail the decode)
            r is Err ==> r->Err_0 is Io,/*-*/
    {
        /*+*/proof {
            let a = reader.secs;
            assert(a[0] == (SectionName::FormatVersion, seq![Field::U8(3)])); assert(a[2] == (SectionName::TreeType, seq![Field::U8(tt_code(tt))]));
            assert(a[3] == (SectionName::LevelCount, seq![Field::U8(levels)])); assert(a[4] == (SectionName::FilterHashType, seq![Field::U8(0)]));
            assert(a[1].0 == SectionName::CrateVersion);
            assert(fv_code(FormatVersion::V3) == 3);
            lemma_lookup_at(a, SectionName::FormatVersion, 0); lemma_lookup_at(a, SectionName::TreeType, 2);
            lemma_lookup_at(a, SectionName::LevelCount, 3); lemma_lookup_at(a, SectionName::FilterHashType, 4);
        }/*-*/
        let toc = reader.toc();

        let version = {
            let section = opt_expect_rt(toc.section(SectionName::FormatVersion));

            let mut reader = section.buf_reader(path)?;
            let version = reader.read_u8()?;
            format_version_of(version)?
        };

        let tree_type = {
            let section = opt_expect_rt(toc.section(SectionName::TreeType));

            let mut reader = section.buf_reader(path)?;
            let tree_type = reader.read_u8()?;
            tree_type_of(tree_type)?
        };

        let level_count = {
            let section = opt_expect_rt(toc.section(SectionName::LevelCount));

            let mut reader = section.buf_reader(path)?;
            reader.read_u8()?
        };

        rt_check(7 == level_count);

        {
            let filter_hash_type = {
                let section = opt_expect_rt(toc.section(SectionName::FilterHashType));

                section.buf_reader(path)?.read_all()?
            };

            rt_check(filter_hash_type.len() == 1 && filter_hash_type[0] == ChecksumType::from(ChecksumType::Xxh3));
        }

        Ok(Self {
            version,
            tree_type,
            level_count,
        })
    }
//@ END
}
/// `FormatVersion::try_from(v).map_err(|()| InvalidVersion(v))`
fn format_version_of(v: u8) -> (r: Result<FormatVersion, Error>) ensures forall|x: FormatVersion| v == fv_code(x) ==> r == Ok::<FormatVersion, Error>(x)
{ match FormatVersion::try_from(v) { Ok(x) => Ok(x), Err(_) => Err(Error::InvalidVersion(v)) } }
/// `b.try_into().map_err(|()| InvalidTag(("TreeType", b)))`
fn tree_type_of(b: u8) -> (r: Result<TreeType, Error>) ensures forall|t: TreeType| b == tt_code(t) ==> r == Ok::<TreeType, Error>(t)
{ match TreeType::try_from(b) { Ok(t) => Ok(t), Err(_) => Err(Error::InvalidTag(("TreeType", b))) } }
}
fn main() {}
