//@ UNIT memtable
// Memtable high-water mark: insert keeps `highest_seqno` = max over everything inserted (also when seqnos arrive out of
// order), get_highest_seqno reports it (None iff empty).  Obligation C18.4 (contract MEM_HI used by C18.3)
use vstd::prelude::*;
verus! {

pub type SeqNo = u64;
#[verifier::external_body] pub struct Key { p: u8 }
#[verifier::external_body] pub struct UserValue { p: u8 }
#[derive(Clone, Copy)]
pub enum ValueType { Value, Tombstone, WeakTombstone, Indirection }
pub struct InternalKey { pub user_key: Key, pub seqno: SeqNo, pub value_type: ValueType }
impl InternalKey { #[verifier::external_body] pub fn new(user_key: Key, seqno: SeqNo, value_type: ValueType) -> (r: InternalKey) ensures r.seqno == seqno { unimplemented!() } }
pub struct InternalValue { pub key: InternalKey, pub value: UserValue }

/// effect token (R15): the sequential view of the memtable's interior-mutable state (skiplist content, atomic high-water mark).
/// TRUSTED: crossbeam SkipMap::insert adds an entry, AtomicU64::fetch_max / store / load have their sequential meaning;
/// interleavings of concurrent writers are not modelled.
pub struct Fx { pub ghost seqnos: Seq<SeqNo>, pub ghost hi: u64 }
pub enum AtomicOrdering { Acquire, Release, AcqRel }
pub struct AtomicU64 { pub p: u8 }
impl AtomicU64 {
    #[verifier::external_body] pub fn fetch_max(&self, v: u64, o: AtomicOrdering, Tracked(fx): Tracked<&mut Fx>) -> (r: u64) ensures final(fx).seqnos == old(fx).seqnos, final(fx).hi == (if v > old(fx).hi { v } else { old(fx).hi }) { unimplemented!() }
    #[verifier::external_body] pub fn store(&self, v: u64, o: AtomicOrdering, Tracked(fx): Tracked<&mut Fx>) ensures final(fx).seqnos == old(fx).seqnos, final(fx).hi == v { unimplemented!() }
    #[verifier::external_body] pub fn load(&self, o: AtomicOrdering, Tracked(fx): Tracked<&mut Fx>) -> (r: u64) ensures *final(fx) == *old(fx), r == old(fx).hi { unimplemented!() }
}
pub struct SkipMap { pub p: u8 }
impl SkipMap {
    #[verifier::external_body] pub fn insert(&self, k: InternalKey, v: UserValue, Tracked(fx): Tracked<&mut Fx>) ensures final(fx).hi == old(fx).hi, final(fx).seqnos == old(fx).seqnos.push(k.seqno) { unimplemented!() }
    #[verifier::external_body] pub fn is_empty(&self, Tracked(fx): Tracked<&mut Fx>) -> (r: bool) ensures *final(fx) == *old(fx), r == (old(fx).seqnos.len() == 0) { unimplemented!() }
}
pub struct Memtable { pub items: SkipMap, pub highest_seqno: AtomicU64 }

pub open spec fn max_of(s: Seq<SeqNo>) -> u64 decreases s.len() { if s.len() == 0 { 0 } else { let m = max_of(s.drop_last()); if s.last() > m { s.last() } else { m } } }
/// the representation invariant of the high-water mark
pub open spec fn hi_ok(fx: Fx) -> bool { fx.hi == max_of(fx.seqnos) }

//@ SUBST `std :: sync :: atomic :: Ordering ::` ==> `AtomicOrdering::`
//@ SUBST `. fetch_max ( $1 , $2 )` ==> `.fetch_max($1, $2, Tracked(fx))`
//@ SUBST `. store ( $1 , $2 )` ==> `.store($1, $2, Tracked(fx))`
//@ SUBST `. load ( $1 )` ==> `.load($1, Tracked(fx))`
//@ SUBST `self . items . insert ( $1 , $2 )` ==> `self.items.insert($1, $2, Tracked(fx))`
//@ SUBST `self . is_empty ( )` ==> `self.items.is_empty(Tracked(fx))`

impl Memtable {
//@ WRAPPER_BEGIN
    /// wrapper (generated) around the statements of Memtable::insert that store the item and maintain the high-water mark
    fn insert_core(&self, item: InternalValue, Tracked(fx): Tracked<&mut Fx>)
        requires hi_ok(*old(fx)),
        ensures
            // C18.4: the entry is in, and the mark is the maximum of everything inserted so far - in whatever order seqnos arrive
            final(fx).seqnos == old(fx).seqnos.push(item.key.seqno), hi_ok(*final(fx)),
    {
//@ FROM src/memtable/mod.rs :: impl Memtable :: fn insert :: STMTS `let key =` .. `self . highest_seqno` :: OBL C18.4
        let key = InternalKey::new(item.key.user_key, item.key.seqno, item.key.value_type);
        self.items.insert(key, item.value, Tracked(fx));

        self.highest_seqno
            .fetch_max(item.key.seqno, AtomicOrdering::AcqRel, Tracked(fx));
//@ END
        /*+*/proof { assert(fx.seqnos.drop_last() =~= old(fx).seqnos); }/*-*/
    }
//@ WRAPPER_END

//@ FROM src/memtable/mod.rs :: impl Memtable :: fn get_highest_seqno :: OBL C18.4
    fn get_highest_seqno(&self/*+*/, Tracked(fx): Tracked<&mut Fx>/*-*/) -> /*+*/(r: /*-*/Option<SeqNo>/*+*/)
        requires hi_ok(*old(fx)),
        ensures *final(fx) == *old(fx),
            r == (if old(fx).seqnos.len() == 0 { None::<SeqNo> } else { Some(max_of(old(fx).seqnos)) })/*-*/
    {
        if self.items.is_empty(Tracked(fx)) {
            None
        } else {
            Some(
                self.highest_seqno
                    .load(AtomicOrdering::Acquire, Tracked(fx)),
            )
        }
    }
//@ END
}

} // verus!
fn main() {}
