//@ UNIT memtable_get
// Memtable::get (src/memtable/mod.rs): a point read of a memtable returns the newest version of the key that is visible at
// the snapshot (seqno < snapshot), or None.  This is the contract MEMTABLE_GET that unit read_path assumes.
// Obligations C01.13, C02.12
use vstd::prelude::*;
use vstd::std_specs::cmp::*;
use vstd::std_specs::iter::*;
verus! {

global size_of usize == 8;

//@ INCLUDE prelude/key.rs
//@ INCLUDE prelude/entry.rs
//@ INCLUDE prelude/seqiter.rs

// ---------------- prelude (TRUSTED): crossbeam SkipMap<InternalKey, UserValue> ----------------
impl Clone for UserValue { #[verifier::external_body] fn clone(&self) -> (r: Self) ensures r == *self { unimplemented!() } }
impl InternalKey {
    /// `#[derive(Clone)]` of the source (inherent, so that the private fields can be named)
    #[verifier::external_body] fn clone(&self) -> (r: Self) ensures r.user_key.rank() == self.user_key.rank(), r.seqno == self.seqno, r.value_type == self.value_type { unimplemented!() }
}
impl InternalKey {
    /// InternalKey::new(key, seqno, type) (asserts the key length fits u16; keys handed to `get` are user keys)
    #[verifier::external_body]
    fn new(user_key: KeyRef, seqno: SeqNo, value_type: ValueType) -> (r: Self) ensures r.user_key.rank() == user_key.rank(), r.seqno == seqno, r.value_type == value_type { unimplemented!() }
}
/// the order of InternalKey (proved in unit orderings, C01.1): user key ascending, then seqno descending
spec fn ik_le(a: InternalKey, b: InternalKey) -> bool { a.user_key.rank() < b.user_key.rank() || (a.user_key.rank() == b.user_key.rank() && a.seqno >= b.seqno) }
spec fn ik_lt(a: InternalKey, b: InternalKey) -> bool { a.user_key.rank() < b.user_key.rank() || (a.user_key.rank() == b.user_key.rank() && a.seqno > b.seqno) }
/// a skiplist entry
struct Entry { k: InternalKey, v: UserValue }
impl Entry {
    fn key(&self) -> (r: &InternalKey) ensures *r == self.k { &self.k }
    fn value(&self) -> (r: &UserValue) ensures *r == self.v { &self.v }
}
/// the skiplist: its entries in key order (strict: one entry per (user key, seqno))
struct SkipMap { ghost s: Seq<Entry> }
impl SkipMap {
    spec fn wf(&self) -> bool { forall|i: int, j: int| 0 <= i < j < self.s.len() ==> ik_lt(#[trigger] self.s[i].k, #[trigger] self.s[j].k) }
    /// index of the first entry at or after `lower`
    uninterp spec fn start(&self, lower: InternalKey) -> int;
    /// `items.range(lower..)`: the entries at or after `lower`, in order
    #[verifier::external_body]
    fn range_from(&self, lower: InternalKey) -> (r: SeqIter<Entry>)
        ensures ({ let n = self.start(lower); 0 <= n <= self.s.len() && r.rest() == self.s.skip(n)
            && (forall|i: int| 0 <= i < n ==> !ik_le(lower, #[trigger] self.s[i].k)) && (forall|i: int| n <= i < self.s.len() ==> ik_le(lower, #[trigger] self.s[i].k)) })
    { unimplemented!() }
}
impl SeqIter<Entry> {
    /// std Iterator::take_while
    #[verifier::external_body]
    fn take_while<P: FnMut(&Entry) -> bool>(self, p: P) -> (r: SeqIter<Entry>)
        requires forall|i: int| 0 <= i < self.rest().len() ==> call_requires(p, (&#[trigger] self.rest()[i],)),
        ensures ({ let m = r.rest().len() as int; m <= self.rest().len() && r.rest() == self.rest().take(m)
            && (forall|i: int| 0 <= i < m ==> call_ensures(p, (&#[trigger] self.rest()[i],), true))
            && (m < self.rest().len() ==> call_ensures(p, (&self.rest()[m],), false)) }),
    { unimplemented!() }
}
struct Memtable { items: SkipMap }

/// entry i is a version of key k visible at snapshot s
spec fn vis(m: Seq<Entry>, i: int, k: int, s: SeqNo) -> bool { 0 <= i < m.len() && m[i].k.user_key.rank() == k && m[i].k.seqno < s }

//@ SUBST `& [ u8 ]` ==> `KeyRef`
impl Memtable {
//@ FROM src/memtable/mod.rs :: impl Memtable :: fn get :: OBL C01.13, C02.12
//@ SUBST `self . items . range ( lower_bound .. )` ==> `self.items.range_from(lower_bound)`
//@ SUBST `& * entry . key ( ) . user_key == key` ==> `entry.key().user_key == key`
    fn get(&self, key: KeyRef, seqno: SeqNo) -> /*+*/(r:/*-*/ Option<InternalValue>/*+*/)
        requires self.items.wf()
        ensures match r {
            // the newest (first in key order) visible version of the key ...
            Some(v) => exists|i: int| #[trigger] vis(self.items.s, i, key.rank(), seqno) && (forall|j: int| 0 <= j < i ==> !vis(self.items.s, j, key.rank(), seqno))
                && v.key.user_key.rank() == self.items.s[i].k.user_key.rank() && v.key.seqno == self.items.s[i].k.seqno
                && v.key.value_type == self.items.s[i].k.value_type && v.value == self.items.s[i].v,
            // ... or nothing if there is none
            None => forall|i: int| !vis(self.items.s, i, key.rank(), seqno),
        }/*-*/
    {
        if seqno == 0 {
            return None;
        }

        let lower_bound = InternalKey::new(key, seqno - 1, ValueType::Value);
        /*+*/let ghost lb = lower_bound; let ghost s = self.items.s; let ghost k = key.rank();/*-*/

        let mut iter = self
            .items
            .range_from(lower_bound)
            .take_while(|entry/*+*/: &Entry/*-*/| /*+*/-> (b: bool) ensures b == (entry.k.user_key.rank() == key.rank()) {/*-*/ entry.key().user_key == key /*+*/}/*-*/);

        /*+*/proof {
            let n = self.items.start(lb);
            let m = iter.rest().len() as int;
            assert(iter.rest() == s.skip(n).take(m));
            assert forall|i: int| 0 <= i < n implies !vis(s, i, k, seqno) by { assert(!ik_le(lb, s[i].k)); }
            if m == 0 {
                assert forall|i: int| n <= i < s.len() implies !vis(s, i, k, seqno) by {
                    assert(s.skip(n)[0] == s[n]);
                    assert(ik_le(lb, s[n].k));
                    if i > n { assert(ik_lt(s[n].k, s[i].k)); }
                }
            } else {
                assert(iter.rest()[0] == s.skip(n)[0]);
                assert(s.skip(n)[0] == s[n]);
                assert(ik_le(lb, s[n].k));
                assert(vis(s, n, k, seqno));
            }
        }/*-*/
        iter.next().map(|entry/*+*/: Entry/*-*/| /*+*/-> (v: InternalValue)
            ensures v.key.user_key.rank() == entry.k.user_key.rank() && v.key.seqno == entry.k.seqno && v.key.value_type == entry.k.value_type && v.value == entry.v
        {/*-*/ InternalValue {
            key: entry.key().clone(),
            value: entry.value().clone(),
        /*+*/}/*-*/ })
    }
//@ END
}

}
fn main() {}
