#![feature(allocator_api)]
//@ UNIT merge_levels
// Version::with_merge, level part (src/version/mod.rs): a compaction's inputs disappear from every level, its output run goes
// to the top of the destination level and nowhere else, all other tables stay where they are.  Obligations C01.16, C07.8
use vstd::prelude::*;
use vstd::std_specs::iter::*;
use std::sync::Arc;
verus! {

global size_of usize == 8;

type TableId = u64;
//@ INCLUDE prelude/seqiter.rs

#[verifier::external_body] struct Table { p: u8 }
/// Run<Table>: a non-empty sequence of tables (ghost view)
struct Run { ghost t: Seq<Table> }
impl Run {
    /// Run::new (units optimize_runs / from_recovery): None iff empty
    #[verifier::external_body]
    fn new(items: Vec<Table>) -> (r: Option<Run>) ensures items@.len() == 0 ==> r is None, items@.len() > 0 ==> r is Some && r->Some_0.t == items@ { unimplemented!() }
}
/// `new_tables.to_vec()`
#[verifier::external_body] fn to_vec(run: &[Table]) -> (r: Vec<Table>) ensures r@ == run@ { unimplemented!() }
struct GenericLevel { runs: Vec<Arc<Run>> }
struct Level(Arc<GenericLevel>);
impl Level {
    /// Level::from_runs(runs.into_iter().map(Arc::new).collect())
    #[verifier::external_body]
    fn from_owned_runs(runs: Vec<Run>) -> (r: Level) ensures runs_of(r) == runs@ { unimplemented!() }
}
spec fn runs_of(l: Level) -> Seq<Run> { Seq::new(l.0.runs@.len(), |i: int| *l.0.runs@[i]) }
/// the runs of a level after the tables with the given ids were taken out and emptied runs dropped, order kept:
/// `level.runs.iter().map(|run| { let mut run = run.deref().clone(); run.retain(|x| !old_ids.contains(&x.metadata.id)); run }).filter(|x| !x.is_empty()).collect::<Vec<_>>()`
uninterp spec fn without_ids(runs: Seq<Run>, ids: Seq<TableId>) -> Seq<Run>;
#[verifier::external_body] fn runs_without(l: &Level, old_ids: &[TableId]) -> (r: Vec<Run>) ensures r@ == without_ids(runs_of(*l), old_ids@) { unimplemented!() }
/// `self.inner.levels.iter().enumerate()`
#[verifier::external_body]
fn enumerate_levels(v: &Vec<Level>) -> (r: SeqIter<(usize, &Level)>)
    ensures r.rest().len() == v@.len(), forall|i: int| 0 <= i < v@.len() ==> (#[trigger] r.rest()[i]).0 == i && *r.rest()[i].1 == v@[i]
{ unimplemented!() }
/// optimize_runs (unit optimize_runs, C01.4 / C07.1): a function of the run list in read order (newest first)
uninterp spec fn optimized(runs: Seq<Run>) -> Seq<Run>;
#[verifier::external_body] fn optimize_runs(runs: Vec<Run>) -> (r: Vec<Run>) ensures r@ == optimized(runs@) { unimplemented!() }

#[derive(Copy, Clone, PartialEq, Eq, Structural)] enum TreeType { Standard, Blob }
#[verifier::external_body] struct BlobFileList { p: u8 }
#[verifier::external_body] struct FragmentationMap { p: u8 }
type VersionId = u64;
//@ FROM src/version/mod.rs :: - :: struct VersionInner
struct VersionInner {
    id: VersionId,

    tree_type: TreeType,

    levels: Vec<Level>,

    blob_files: Arc<BlobFileList>,

    gc_stats: Arc<FragmentationMap>,
}
//@ END
//@ FROM src/version/mod.rs :: - :: struct Version
struct Version {
    inner: Arc<VersionInner>,
}
//@ END
impl Version {
    /// `self.iter_tables().filter(|x| ids.contains(&x.id())).cloned().collect::<Vec<_>>()`: the tables of this version named by `ids`
    uninterp spec fn named(&self, ids: Seq<TableId>) -> Seq<Table>;
    #[verifier::external_body] fn tables_named(&self, ids: &[TableId]) -> (r: Vec<Table>) ensures r@ == self.named(ids@) { unimplemented!() }
}
impl Clone for Table { #[verifier::external_body] fn clone(&self) -> (r: Self) ensures r == *self { unimplemented!() } }
#[verifier::external_body] fn clone_tables(v: &Vec<Table>) -> (r: Vec<Table>) ensures r@ == v@ { unimplemented!() }

/// level i of the merged version
spec fn merged_level(old: Level, i: int, old_ids: Seq<TableId>, new_tables: Seq<Table>, dest_level: int) -> Seq<Run> {
    let kept = without_ids(runs_of(old), old_ids);
    optimized(if i == dest_level && new_tables.len() > 0 { seq![Run { t: new_tables }] + kept } else { kept })
}

//@ WRAPPER_BEGIN
impl Version {
    /// wrapper (generated) around the statements of Version::with_merge that build the level list
    fn merged_levels(&self, old_ids: &[TableId], new_tables: &[Table], dest_level: usize) -> (levels: Vec<Level>)
        ensures levels@.len() == self.inner.levels@.len(),
            forall|i: int| 0 <= i < self.inner.levels@.len() ==> runs_of(#[trigger] levels@[i]) == merged_level(self.inner.levels@[i], i, old_ids@, new_tables@, dest_level as int),
    {
//@ FROM src/version/mod.rs :: impl Version :: fn with_merge :: STMTS `let mut levels = vec ! [ ] ;` .. `<let has_diff =` :: OBL C01.16, C07.8
//@ SUBST `vec ! [ ]` ==> `Vec::new()`
//@ SUBST `self . levels . iter ( ) . enumerate ( )` ==> `enumerate_levels(&self.inner.levels)`
//@ SUBST `level . runs . iter ( ) . map ( $1 ) . filter ( $2 ) . collect :: < Vec < _ > > ( )` ==> `runs_without(level, old_ids)`
//@ SUBST `new_tables . to_vec ( )` ==> `to_vec(new_tables)`
//@ SUBST `Level :: from_runs ( runs . into_iter ( ) . map ( Arc :: new ) . collect ( ) )` ==> `Level::from_owned_runs(runs)`
        let mut levels/*+*/: Vec<Level>/*-*/ = Vec::new();

        for (level_idx, level) in /*+*/it:/*-*/ enumerate_levels(&self.inner.levels)
            /*+*/invariant it.seq().len() == self.inner.levels@.len(),
                forall|i: int| 0 <= i < self.inner.levels@.len() ==> (#[trigger] it.seq()[i]).0 == i && *it.seq()[i].1 == self.inner.levels@[i],
                levels@.len() == it.index@,
                forall|i: int| 0 <= i < it.index@ ==> runs_of(#[trigger] levels@[i]) == merged_level(self.inner.levels@[i], i, old_ids@, new_tables@, dest_level as int),/*-*/
        {
            let mut runs = runs_without(level, old_ids);

            if level_idx == dest_level {
                if let Some(run) = Run::new(to_vec(new_tables)) {
                    runs.insert(0, run);
                }
            }
            /*+*/proof {
                let kept = without_ids(runs_of(*level), old_ids@);
                assert(runs@ =~= if level_idx == dest_level && new_tables@.len() > 0 { seq![Run { t: new_tables@ }] + kept } else { kept });
            }/*-*/

            let runs = optimize_runs(runs);

            levels.push(Level::from_owned_runs(runs));
        }
        /*+*/levels/*-*/
//@ END
    }
}
//@ WRAPPER_END

/// `level.runs.iter().map(|run| { clone; dropped_tables.extend(run.inner_mut().extract_if(.., |x| ids.contains(&x.metadata.id))); run }).filter(|x| !x.is_empty()).collect()`:
/// the same removal as without_ids, the removed tables are appended to `dropped_tables`
#[verifier::external_body]
fn runs_without_collect(l: &Level, ids: &[TableId], dropped_tables: &mut Vec<Table>) -> (r: Vec<Run>) ensures r@ == without_ids(runs_of(*l), ids@) { unimplemented!() }
/// `for level in &self.inner.levels`
#[verifier::external_body]
fn iter_levels(v: &Vec<Level>) -> (r: SeqIter<&Level>)
    ensures r.rest().len() == v@.len(), forall|i: int| 0 <= i < v@.len() ==> *(#[trigger] r.rest()[i]) == v@[i]
{ unimplemented!() }

//@ WRAPPER_BEGIN
impl Version {
    /// wrapper (generated) around the statements of Version::with_dropped that build the level list
    fn dropped_levels(&self, ids: &[TableId]) -> (levels: Vec<Level>)
        ensures levels@.len() == self.inner.levels@.len(),
            // every level is the old one minus the named tables - nothing else moves (dest_level -1: no level receives a run)
            forall|i: int| 0 <= i < self.inner.levels@.len() ==> runs_of(#[trigger] levels@[i]) == merged_level(self.inner.levels@[i], i, ids@, Seq::<Table>::empty(), -1),
    {
//@ FROM src/version/mod.rs :: impl Version :: fn with_dropped :: STMTS `let mut levels = vec ! [ ] ;` .. `<let gc_stats =` :: OBL C15.7, C19.3
//@ SUBST `vec ! [ ]` ==> `Vec::new()`
//@ SUBST `for level in & self . levels` ==> `for level in iter_levels(&self.inner.levels)`
//@ SUBST `level . runs . iter ( ) . map ( $1 ) . filter ( $2 ) . collect :: < Vec < _ > > ( )` ==> `runs_without_collect(level, ids, &mut dropped_tables)`
//@ SUBST `Level :: from_runs ( runs . into_iter ( ) . map ( Arc :: new ) . collect ( ) )` ==> `Level::from_owned_runs(runs)`
        let mut levels/*+*/: Vec<Level>/*-*/ = Vec::new();

        let mut dropped_tables: Vec<Table> = Vec::new();

        for level in /*+*/it:/*-*/ iter_levels(&self.inner.levels)
            /*+*/invariant it.seq().len() == self.inner.levels@.len(),
                forall|i: int| 0 <= i < self.inner.levels@.len() ==> *(#[trigger] it.seq()[i]) == self.inner.levels@[i],
                levels@.len() == it.index@,
                forall|i: int| 0 <= i < it.index@ ==> runs_of(#[trigger] levels@[i]) == merged_level(self.inner.levels@[i], i, ids@, Seq::<Table>::empty(), -1),/*-*/
        {
            let runs = runs_without_collect(level, ids, &mut dropped_tables);

            let runs = optimize_runs(runs);

            levels.push(Level::from_owned_runs(runs));
        }
        /*+*/levels/*-*/
//@ END
    }
}
//@ WRAPPER_END

impl Version {
//@ FROM src/version/mod.rs :: impl Version :: fn with_moved :: OBL C07.9, C01.17
//@ SUBST `vec ! [ ]` ==> `Vec::new()`
//@ SUBST `self . iter_tables ( ) . filter ( $1 ) . cloned ( ) . collect :: < Vec < _ > > ( )` ==> `self.tables_named(ids)`
//@ SUBST `assert_eq ! ( $1 ) ;` ==> ``
//@ SUBST `self . levels . iter ( ) . enumerate ( )` ==> `enumerate_levels(&self.inner.levels)`
//@ SUBST `level . runs . iter ( ) . map ( $1 ) . filter ( $2 ) . collect :: < Vec < _ > > ( )` ==> `runs_without(level, ids)`
//@ SUBST `affected_tables . clone ( )` ==> `clone_tables(&affected_tables)`
//@ SUBST `Level :: from_runs ( runs . into_iter ( ) . map ( Arc :: new ) . collect ( ) )` ==> `Level::from_owned_runs(runs)`
//@ SUBST `self . id` ==> `self.inner.id`
//@ SUBST `self . tree_type` ==> `self.inner.tree_type`
//@ SUBST `self . blob_files` ==> `self.inner.blob_files`
//@ SUBST `self . gc_stats` ==> `self.inner.gc_stats`
    fn with_moved(&self, ids: &[TableId], dest_level: usize) -> /*+*/(r:/*-*/ Self/*+*/)
        requires self.inner.id < u64::MAX
        ensures r.inner.id == self.inner.id + 1, r.inner.tree_type == self.inner.tree_type, r.inner.blob_files == self.inner.blob_files, r.inner.gc_stats == self.inner.gc_stats,
            r.inner.levels@.len() == self.inner.levels@.len(),
            // the moved tables leave every level and arrive as one run at the top of the destination level; nothing else moves
            forall|i: int| 0 <= i < self.inner.levels@.len() ==> runs_of(#[trigger] r.inner.levels@[i]) == merged_level(self.inner.levels@[i], i, ids@, self.named(ids@), dest_level as int),/*-*/
    {
        let id = self.inner.id + 1;

        let affected_tables = self.tables_named(ids);

        let mut levels/*+*/: Vec<Level>/*-*/ = Vec::new();

        for (level_idx, level) in /*+*/it:/*-*/ enumerate_levels(&self.inner.levels)
            /*+*/invariant it.seq().len() == self.inner.levels@.len(), affected_tables@ == self.named(ids@),
                forall|i: int| 0 <= i < self.inner.levels@.len() ==> (#[trigger] it.seq()[i]).0 == i && *it.seq()[i].1 == self.inner.levels@[i],
                levels@.len() == it.index@,
                forall|i: int| 0 <= i < it.index@ ==> runs_of(#[trigger] levels@[i]) == merged_level(self.inner.levels@[i], i, ids@, self.named(ids@), dest_level as int),/*-*/
        {
            let mut runs = runs_without(level, ids);

            if level_idx == dest_level {
                if let Some(run) = Run::new(clone_tables(&affected_tables)) {
                    runs.insert(0, run);
                }
            }
            /*+*/proof {
                let kept = without_ids(runs_of(*level), ids@);
                assert(runs@ =~= if level_idx == dest_level && self.named(ids@).len() > 0 { seq![Run { t: self.named(ids@) }] + kept } else { kept });
            }/*-*/

            let runs = optimize_runs(runs);

            levels.push(Level::from_owned_runs(runs));
        }

        Self {
            inner: Arc::new(VersionInner {
                id,
                tree_type: self.inner.tree_type,
                levels,
                blob_files: self.inner.blob_files.clone(),
                gc_stats: self.inner.gc_stats.clone(),
            }),
        }
    }
//@ END
}

}
fn main() {}
