#![feature(allocator_api)]
//@ UNIT merge_levels
// Version::with_merge, level part (src/version/mod.rs): a compaction's inputs disappear from every level, its output run goes
// to the top of the destination level and nowhere else, all other tables stay where they are.  Obligations C01.16, C07.8
use vstd::prelude::*;
use vstd::std_specs::iter::*;
use std::sync::Arc;
verus! {

global size_of usize == 8;

type TableId = u64;
//@ INCLUDE prelude/seqiter.rs

#[verifier::external_body] struct Table { p: u8 }
/// Run<Table>: a non-empty sequence of tables (ghost view)
struct Run { ghost t: Seq<Table> }
impl Run {
    /// Run::new (units optimize_runs / from_recovery): None iff empty
    #[verifier::external_body]
    fn new(items: Vec<Table>) -> (r: Option<Run>) ensures items@.len() == 0 ==> r is None, items@.len() > 0 ==> r is Some && r->Some_0.t == items@ { unimplemented!() }
}
/// `new_tables.to_vec()`
#[verifier::external_body] fn to_vec(run: &[Table]) -> (r: Vec<Table>) ensures r@ == run@ { unimplemented!() }
struct GenericLevel { runs: Vec<Arc<Run>> }
struct Level(Arc<GenericLevel>);
impl Level {
    /// Level::from_runs(runs.into_iter().map(Arc::new).collect())
    #[verifier::external_body]
    fn from_owned_runs(runs: Vec<Run>) -> (r: Level) ensures runs_of(r) == runs@ { unimplemented!() }
}
spec fn runs_of(l: Level) -> Seq<Run> { Seq::new(l.0.runs@.len(), |i: int| *l.0.runs@[i]) }
/// the runs of a level after the tables with the given ids were taken out and emptied runs dropped, order kept:
/// `level.runs.iter().map(|run| { let mut run = run.deref().clone(); run.retain(|x| !old_ids.contains(&x.metadata.id)); run }).filter(|x| !x.is_empty()).collect::<Vec<_>>()`
uninterp spec fn without_ids(runs: Seq<Run>, ids: Seq<TableId>) -> Seq<Run>;
#[verifier::external_body] fn runs_without(l: &Level, old_ids: &[TableId]) -> (r: Vec<Run>) ensures r@ == without_ids(runs_of(*l), old_ids@) { unimplemented!() }
/// `self.levels.iter().enumerate()`
#[verifier::external_body]
fn enumerate_levels(v: &Vec<Level>) -> (r: SeqIter<(usize, &Level)>)
    ensures r.rest().len() == v@.len(), forall|i: int| 0 <= i < v@.len() ==> (#[trigger] r.rest()[i]).0 == i && *r.rest()[i].1 == v@[i]
{ unimplemented!() }
/// optimize_runs (unit optimize_runs, C01.4 / C07.1): a function of the run list in read order (newest first)
uninterp spec fn optimized(runs: Seq<Run>) -> Seq<Run>;
#[verifier::external_body] fn optimize_runs(runs: Vec<Run>) -> (r: Vec<Run>) ensures r@ == optimized(runs@) { unimplemented!() }

struct Version { levels: Vec<Level> }

/// level i of the merged version
spec fn merged_level(old: Level, i: int, old_ids: Seq<TableId>, new_tables: Seq<Table>, dest_level: int) -> Seq<Run> {
    let kept = without_ids(runs_of(old), old_ids);
    optimized(if i == dest_level && new_tables.len() > 0 { seq![Run { t: new_tables }] + kept } else { kept })
}

//@ WRAPPER_BEGIN
impl Version {
    /// wrapper (generated) around the statements of Version::with_merge that build the level list
    fn merged_levels(&self, old_ids: &[TableId], new_tables: &[Table], dest_level: usize) -> (levels: Vec<Level>)
        ensures levels@.len() == self.levels@.len(),
            forall|i: int| 0 <= i < self.levels@.len() ==> runs_of(#[trigger] levels@[i]) == merged_level(self.levels@[i], i, old_ids@, new_tables@, dest_level as int),
    {
//@ FROM src/version/mod.rs :: impl Version :: fn with_merge :: STMTS `let mut levels = vec ! [ ] ;` .. `<let has_diff =` :: OBL C01.16, C07.8
//@ SUBST `vec ! [ ]` ==> `Vec::new()`
//@ SUBST `self . levels . iter ( ) . enumerate ( )` ==> `enumerate_levels(&self.levels)`
//@ SUBST `level . runs . iter ( ) . map ( $1 ) . filter ( $2 ) . collect :: < Vec < _ > > ( )` ==> `runs_without(level, old_ids)`
//@ SUBST `new_tables . to_vec ( )` ==> `to_vec(new_tables)`
//@ SUBST `Level :: from_runs ( runs . into_iter ( ) . map ( Arc :: new ) . collect ( ) )` ==> `Level::from_owned_runs(runs)`
        let mut levels/*+*/: Vec<Level>/*-*/ = Vec::new();

        for (level_idx, level) in /*+*/it:/*-*/ enumerate_levels(&self.levels)
            /*+*/invariant it.seq().len() == self.levels@.len(),
                forall|i: int| 0 <= i < self.levels@.len() ==> (#[trigger] it.seq()[i]).0 == i && *it.seq()[i].1 == self.levels@[i],
                levels@.len() == it.index@,
                forall|i: int| 0 <= i < it.index@ ==> runs_of(#[trigger] levels@[i]) == merged_level(self.levels@[i], i, old_ids@, new_tables@, dest_level as int),/*-*/
        {
            let mut runs = runs_without(level, old_ids);

            if level_idx == dest_level {
                if let Some(run) = Run::new(to_vec(new_tables)) {
                    runs.insert(0, run);
                }
            }
            /*+*/proof {
                let kept = without_ids(runs_of(*level), old_ids@);
                assert(runs@ =~= if level_idx == dest_level && new_tables@.len() > 0 { seq![Run { t: new_tables@ }] + kept } else { kept });
            }/*-*/

            let runs = optimize_runs(runs);

            levels.push(Level::from_owned_runs(runs));
        }
        /*+*/levels/*-*/
//@ END
    }
}
//@ WRAPPER_END

}
fn main() {}
