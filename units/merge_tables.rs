//@ UNIT merge_tables
// compaction::worker::{merge_tables, hidden_guard} (whole functions), compaction::state::{CompactionState::hidden_set,
// hidden_set_mut}, HiddenSet::{hide, show, is_blocked, is_hidden, should_decline_compaction}:
// a compaction hides its input tables only after every fallible preparation step, and every exit of merge_tables -
// Ok or Err, on every path - leaves the hidden set as it found it.  Obligations C16.6, C16.7
use vstd::prelude::*;
use vstd::std_specs::iter::*;
verus! {

global size_of usize == 8;

type TableId = u64;
type SeqNo = u64;

//@ INCLUDE prelude/seqiter.rs

// ---------------- prelude (TRUSTED) ----------------
#[verifier::external_body] struct Error { p: u8 }
impl<T> SeqIter<T> {
    /// IntoIterator::into_iter of an iterator is the iterator
    fn into_iter(self) -> (r: Self) ensures r == self { self }
}
impl SeqIter<TableId> {
    /// std Iterator::any
    #[verifier::external_body]
    fn any<F: FnMut(TableId) -> bool>(self, f: F) -> (r: bool)
        requires forall|i: int| 0 <= i < self.rest().len() ==> call_requires(f, (#[trigger] self.rest()[i],)),
        ensures r ==> exists|i: int| 0 <= i < self.rest().len() && call_ensures(f, (#[trigger] self.rest()[i],), true),
            !r ==> forall|i: int| 0 <= i < self.rest().len() ==> call_ensures(f, (#[trigger] self.rest()[i],), false),
    { unimplemented!() }
}
/// crate::HashSet<TableId> (TRUSTED model of std HashSet: a finite set of ids)
#[verifier::external_body] struct IdSet { p: u8 }
impl View for IdSet { type V = Set<TableId>; uninterp spec fn view(&self) -> Set<TableId>; }
impl IdSet {
    #[verifier::external_body]
    fn extend(&mut self, keys: SeqIter<TableId>) ensures final(self)@ == old(self)@.union(keys.rest().to_set()) { unimplemented!() }
    #[verifier::external_body]
    fn remove(&mut self, key: &TableId) -> (r: bool) ensures final(self)@ == old(self)@.remove(*key) { unimplemented!() }
    #[verifier::external_body]
    fn contains(&self, key: &TableId) -> (r: bool) ensures r == self@.contains(*key) { unimplemented!() }
}

proof fn lemma_take_set(ks: Seq<TableId>, i: int)
    requires 0 <= i < ks.len()
    ensures ks.take(i + 1).to_set() =~= ks.take(i).to_set().insert(ks[i])
{
    assert forall|x: TableId| ks.take(i + 1).to_set().contains(x) <==> ks.take(i).to_set().insert(ks[i]).contains(x) by {
        if ks.take(i + 1).contains(x) {
            let t1 = ks.take(i + 1); let j = choose|j: int| 0 <= j < t1.len() && #[trigger] t1[j] == x;
            if j < i { assert(ks.take(i)[j] == x); }
        }
        if ks.take(i).contains(x) {
            let t0 = ks.take(i); let j = choose|j: int| 0 <= j < t0.len() && #[trigger] t0[j] == x;
            assert(ks.take(i + 1)[j] == x);
        }
        if x == ks[i] { assert(ks.take(i + 1)[i] == x); }
    }
}

//@ SUBST `crate :: Error` ==> `Error`
//@ SUBST `< T : IntoIterator < Item = TableId > >` ==> ``
//@ SUBST `keys : T` ==> `keys: SeqIter<TableId>`
//@ SUBST `ids : T` ==> `ids: SeqIter<TableId>`

//@ FROM src/compaction/state/hidden_set.rs :: - :: struct HiddenSet
//@ SUBST `crate :: HashSet < TableId >` ==> `IdSet`
struct HiddenSet {
    set: IdSet,
}
//@ END

impl HiddenSet {
//@ FROM src/compaction/state/hidden_set.rs :: impl HiddenSet :: fn hide :: OBL C16.6
    fn hide(&mut self, keys: SeqIter<TableId>/*+*/)
        ensures final(self).set@ == old(self).set@.union(keys.rest().to_set()/*-*/)
    {
        self.set.extend(keys);
    }
//@ END
//@ FROM src/compaction/state/hidden_set.rs :: impl HiddenSet :: fn show :: OBL C16.6
    fn show(&mut self, keys: SeqIter<TableId>/*+*/)
        ensures final(self).set@ == old(self).set@.difference(keys.rest().to_set()/*-*/)
    {
        /*+*/let ghost ks = keys.rest();/*-*/
        for key in /*+*/it:/*-*/ keys
            /*+*/invariant it.seq() == ks, self.set@ =~= old(self).set@.difference(ks.take(it.index@ as int).to_set()),/*-*/
        {
            /*+*/proof { lemma_take_set(ks, it.index@ as int); }/*-*/
            self.set.remove(&key);
        }
        /*+*/proof { assert(ks.take(ks.len() as int) =~= ks); }/*-*/
    }
//@ END
//@ FROM src/compaction/state/hidden_set.rs :: impl HiddenSet :: fn is_blocked :: OBL C16.6
    fn is_blocked(&self, ids: SeqIter<TableId>) -> /*+*/(r:/*-*/ bool/*+*/)
        ensures r == !self.set@.disjoint(ids.rest().to_set())/*-*/
    {
        ids.into_iter().any(|id/*+*/: TableId/*-*/| /*+*/-> (b: bool) ensures b == self.set@.contains(id) {/*-*/ self.is_hidden(id) /*+*/}/*-*/)
    }
//@ END
//@ FROM src/compaction/state/hidden_set.rs :: impl HiddenSet :: fn is_hidden :: OBL C16.6
    fn is_hidden(&self, key: TableId) -> /*+*/(r:/*-*/ bool/*+*/) ensures r == self.set@.contains(key)/*-*/ {
        self.set.contains(&key)
    }
//@ END
//@ FROM src/compaction/state/hidden_set.rs :: impl HiddenSet :: fn should_decline_compaction :: OBL C16.6
    fn should_decline_compaction(
        &self,
        ids: SeqIter<TableId>,
    ) -> /*+*/(r:/*-*/ bool/*+*/)
        ensures r == !self.set@.disjoint(ids.rest().to_set())/*-*/
    {
        self.is_blocked(ids)
    }
//@ END
}

// ---------------- prelude (TRUSTED): the shared compaction state, locks, and the opaque steps of a merge ----------------
/// the hidden set behind `Arc<Mutex<CompactionState>>` as a ghost token (rule R15); a guard is the capability to read
/// and change it.  No other thread is modelled (concurrent compactions own disjoint tables).
struct Hid { ghost hidden: Set<TableId> }
/// MutexGuard<'_, CompactionState> / &HiddenSet / &mut HiddenSet reached through it: the operations carry the contracts
/// proved for HiddenSet above (hide = union, show = difference, should_decline_compaction = not disjoint)
struct StateGuard { p: u8 }
struct HidRef { p: u8 }
struct HidMut { p: u8 }
impl StateGuard {
    fn hidden_set(&self) -> (r: HidRef) { HidRef { p: 0 } }
    fn hidden_set_mut(&mut self) -> (r: HidMut) { HidMut { p: 0 } }
}
impl HidRef {
    #[verifier::external_body]
    fn should_decline_compaction(&self, ids: SeqIter<TableId>, Tracked(fx): Tracked<&mut Hid>) -> (r: bool)
        ensures *final(fx) == *old(fx), r == !old(fx).hidden.disjoint(ids.rest().to_set())
    { unimplemented!() }
}
impl HidMut {
    #[verifier::external_body]
    fn hide(&mut self, keys: SeqIter<TableId>, Tracked(fx): Tracked<&mut Hid>) ensures final(fx).hidden == old(fx).hidden.union(keys.rest().to_set()) { unimplemented!() }
    #[verifier::external_body]
    fn show(&mut self, keys: SeqIter<TableId>, Tracked(fx): Tracked<&mut Hid>) ensures final(fx).hidden == old(fx).hidden.difference(keys.rest().to_set()) { unimplemented!() }
}
struct StateMutex { p: u8 }
struct LockResult { p: u8 }
impl StateMutex { fn lock(&self) -> (r: LockResult) { LockResult { p: 0 } } }
impl LockResult { fn expect(self, msg: &str) -> (r: StateGuard) { StateGuard { p: 0 } } }
/// std::mem::drop of a guard / lock / value
fn drop<T>(x: T) {}

struct StopSignal { p: u8 }
impl StopSignal { #[verifier::external_body] fn is_stopped(&self) -> (r: bool) { unimplemented!() } }
#[verifier::external_body] struct SuperVersions { p: u8 }
#[verifier::external_body] struct SuperVersion { p: u8 }
#[verifier::external_body] struct ReadGuard { p: u8 }
#[verifier::external_body] struct WriteGuard { p: u8 }
#[verifier::external_body] struct HistoryLock { p: u8 }
#[verifier::external_body] struct WriteLockResult { p: u8 }
impl ReadGuard { #[verifier::external_body] fn latest_version(&self) -> (r: &SuperVersion) { unimplemented!() } }
impl HistoryLock { #[verifier::external_body] fn write(&self) -> (r: WriteLockResult) { unimplemented!() } }
impl WriteLockResult { #[verifier::external_body] fn expect(self, msg: &str) -> (r: WriteGuard) { unimplemented!() } }
impl WriteGuard {
    /// SuperVersions::maintenance (unit super_versions): does not touch the hidden set
    #[verifier::external_body] fn maintenance(&mut self, path: &Path, watermark: SeqNo) -> (r: Result<(), Error>) { unimplemented!() }
}
#[verifier::external_body] struct Path { p: u8 }
#[verifier::external_body] struct PathBuf { p: u8 }
impl Path { #[verifier::external_body] fn join(&self, name: &str) -> (r: PathBuf) { unimplemented!() } }
const BLOBS_FOLDER: &'static str = "blobs";
struct Config { level_count: u8, path: Box<Path> }
struct Options { stop_signal: StopSignal, mvcc_gc_watermark: u64, config: Box<Config>, compaction_state: Box<StateMutex>, version_history: Box<HistoryLock> }
/// compaction::Input: the ids of the tables to merge (HashSet<TableId>; `.iter().copied()` yields each id)
struct CompactionPayload { ghost ids: Set<TableId>, dest_level: u8, canonical_level: u8 }
impl CompactionPayload {
    /// `payload.table_ids.iter().copied()`
    #[verifier::external_body]
    fn ids(&self) -> (r: SeqIter<TableId>) ensures r.rest().to_set() == self.ids { unimplemented!() }
}
/// the opaque steps of a merge: none of them has access to the compaction state (the text they abstract is checked for
/// that by the FORBID clauses of the rules below); fallible ones return Result and are followed by the source's `?`
#[verifier::external_body] struct Tables { p: u8 }
#[verifier::external_body] struct MergeIter { p: u8 }
#[verifier::external_body] struct FragmentationMap { p: u8 }
#[verifier::external_body] struct TableWriter { p: u8 }
#[verifier::external_body] struct Compactor { p: u8 }
#[verifier::external_body] struct FilterBox { p: u8 }
#[verifier::external_body] struct BlobFileWriter { p: u8 }
#[verifier::external_body] struct BlobFiles { p: u8 }
#[verifier::external_body] struct StreamFilterAdapter { p: u8 }
#[verifier::external_body] struct Instant { p: u8 }
impl Instant { #[verifier::external_body] fn now() -> (r: Self) { unimplemented!() } }
struct Context { is_last_level: bool }
impl FragmentationMap { #[verifier::external_body] fn default() -> (r: Self) { unimplemented!() } }
/// `payload.table_ids.iter().map(|&id| version.get_table(id).cloned()).collect::<Option<Vec<_>>>()`
#[verifier::external_body] fn collect_tables(payload: &CompactionPayload, sv: &SuperVersion) -> (r: Option<Tables>) { unimplemented!() }
#[verifier::external_body] fn create_compaction_stream(sv: &SuperVersion, ids: &Vec<TableId>, watermark: SeqNo) -> (r: Result<Option<MergeIter>, Error>) { unimplemented!() }
impl CompactionPayload {
    /// `payload.table_ids.iter().copied().collect::<Vec<_>>()`
    #[verifier::external_body] fn id_vec(&self) -> (r: Vec<TableId>) { unimplemented!() }
}
impl MergeIter {
    #[verifier::external_body] fn evict_tombstones(self, b: bool) -> (r: Self) { unimplemented!() }
    #[verifier::external_body] fn zero_seqnos(self, b: bool) -> (r: Self) { unimplemented!() }
    #[verifier::external_body] fn with_filter(self, f: StreamFilterAdapter) -> (r: Self) { unimplemented!() }
}
/// `opts.config.compaction_filter_factory.as_ref().map(|f| f.make_filter(&filter_ctx))`
#[verifier::external_body] fn make_compaction_filter(opts: &Options, ctx: &Context) -> (r: Option<FilterBox>) { unimplemented!() }
impl StreamFilterAdapter {
    /// StreamFilterAdapter::new(compaction_filter.as_deref_mut(), opts, version, blobs_folder, &mut filter_blob_writer, ctx)
    #[verifier::external_body]
    fn new(f: &mut Option<FilterBox>, opts: &Options, sv: &SuperVersion, blobs_folder: &PathBuf, w: &mut Option<BlobFileWriter>, ctx: &Context) -> (r: Self) { unimplemented!() }
}
#[verifier::external_body] fn prepare_table_writer(sv: &SuperVersion, opts: &Options, payload: &CompactionPayload) -> (r: Result<TableWriter, Error>) { unimplemented!() }
/// the `match &opts.config.kv_separation_opts { .. }` that builds the compaction flavour (standard / relocating), with its `?` exits
#[verifier::external_body]
fn prepare_compactor(opts: &Options, payload: &CompactionPayload, sv: &SuperVersion, it: &mut MergeIter, frag: &mut FragmentationMap, w: TableWriter, tables: Tables, blobs_folder: &PathBuf) -> (r: Result<Compactor, Error>) { unimplemented!() }
/// the body of the closure handed to hidden_guard: `for (idx, item) in merge_iter.enumerate() { compactor.write(item?)?; .. } Ok(())`
#[verifier::external_body] fn run_merge_loop(it: MergeIter, compactor: &mut Compactor, opts: &Options) -> (r: Result<(), Error>) { unimplemented!() }
/// rule R23: a FnOnce closure that is called exactly once, first thing, by the (verified) callee is passed as its result
struct Thunk<T> { r: Result<T, Error> }
impl<T> Thunk<T> {
    fn of(r: Result<T, Error>) -> (t: Self) ensures t.r == r { Thunk { r } }
    fn call(self) -> (r: Result<T, Error>) ensures r == self.r { self.r }
}
impl FilterBox { #[verifier::external_body] fn finish(self) { unimplemented!() } }
/// `filter_blob_writer.map(BlobFileWriter::finish).transpose()`
#[verifier::external_body] fn finish_filter_blob_writer(w: Option<BlobFileWriter>) -> (r: Result<Option<BlobFiles>, Error>) { unimplemented!() }
#[verifier::external_body] fn blob_files_or_default(x: Option<BlobFiles>) -> (r: BlobFiles) { unimplemented!() }
impl Compactor {
    /// CompactionFlavour::finish (unit compaction_finish): publishes the new version; has no access to the hidden set
    #[verifier::external_body]
    fn finish(self, lock: &mut WriteGuard, opts: &Options, payload: &CompactionPayload, dst_lvl: u8, frag: FragmentationMap, extra: BlobFiles) -> (r: Result<(), Error>) { unimplemented!() }
}

//@ SUBST `payload . table_ids . iter ( ) . copied ( ) . collect :: < Vec < _ > > ( )` ==> `payload.id_vec()`
//@ SUBST `payload . table_ids . iter ( ) . copied ( )` ==> `payload.ids()`
//@ SUBST `. show ( $1 )` ==> `.show($1, Tracked(fx))`
//@ SUBST `. hide ( $1 )` ==> `.hide($1, Tracked(fx))`
//@ SUBST `. should_decline_compaction ( $1 )` ==> `.should_decline_compaction($1, Tracked(fx))`

//@ FROM src/compaction/worker.rs :: - :: fn hidden_guard :: OBL C16.6
//@ SUBST `crate :: Result < T >` ==> `Result<T, Error>`
//@ SUBST `f : impl FnOnce ( ) -> Result<T, Error>` ==> `f: Thunk<T>`
//@ SUBST `f ( ) . inspect_err ( | e | { $1 } )` ==> `match f.call() { Ok(v__) => Ok(v__), Err(e) => { $1 Err(e) } }`
fn hidden_guard<T>(
    payload: &CompactionPayload,
    opts: &Options,
    f: Thunk<T>,
    /*+*/Tracked(fx): Tracked<&mut Hid>/*-*/
) -> /*+*/(r:/*-*/ Result<T, Error>/*+*/)
    ensures r == f.r,
        r is Ok ==> *final(fx) == *old(fx),
        r is Err ==> final(fx).hidden == old(fx).hidden.difference(payload.ids),/*-*/
{
    match f.call() { Ok(v__) => Ok(v__), Err(e) => {
        // IMPORTANT: We need to show tables again on error
        let mut compaction_state = opts.compaction_state.lock().expect("lock is poisoned");

        compaction_state
            .hidden_set_mut()
            .show(payload.ids(), Tracked(fx));
    Err(e) } }
}
//@ END

//@ FROM src/compaction/worker.rs :: - :: fn merge_tables :: OBL C16.7
//@ SUBST `crate :: Result < ( ) >` ==> `Result<(), Error>`
//@ SUBST `MutexGuard < '_ , CompactionState >` ==> `StateGuard`
//@ SUBST `RwLockReadGuard < '_ , SuperVersions >` ==> `ReadGuard`
//@ SUBST `payload . table_ids . iter ( ) . map ( $1 ) . collect :: < Option < Vec < _ > > > ( )` ==> `collect_tables(payload, current_super_version)` :: FORBID compaction_state hidden_set hidden_set_mut fx
//@ SUBST `& current_super_version . version` ==> `current_super_version`
//@ SUBST `payload . canonical_level . into ( )` ==> `payload.canonical_level`
//@ SUBST `opts . config . compaction_filter_factory . as_ref ( ) . map ( $1 )` ==> `make_compaction_filter(opts, &filter_ctx)` :: FORBID compaction_state hidden_set hidden_set_mut fx
//@ SUBST `compaction_filter . as_deref_mut ( )` ==> `&mut compaction_filter`
//@ SUBST `super :: flavour :: prepare_table_writer` ==> `prepare_table_writer`
//@ SUBST `match & opts . config . kv_separation_opts { $1 }` ==> `prepare_compactor(opts, payload, current_super_version, &mut merge_iter, &mut blob_frag_map, table_writer, tables, &blobs_folder)?` :: FORBID compaction_state hidden_set hidden_set_mut fx
//@ SUBST `hidden_guard ( payload , opts , || { $1 } )` ==> `hidden_guard(payload, opts, Thunk::of(run_merge_loop(merge_iter, &mut compactor, opts)), Tracked(fx))` :: FORBID compaction_state hidden_set hidden_set_mut fx
//@ SUBST `filter_blob_writer . map ( BlobFileWriter :: finish ) . transpose ( ) . inspect_err ( | e | { $1 } ) ? . unwrap_or_default ( )` ==> `blob_files_or_default(match finish_filter_blob_writer(filter_blob_writer) { Ok(v__) => v__, Err(e) => { $1 return Err(e); } })`
//@ SUBST `compactor . finish ( $1 ) . inspect_err ( | e | { $2 } ) ?` ==> `match compactor.finish($1) { Ok(v__) => v__, Err(e) => { $2 return Err(e); } }`
//@ SUBST `. inspect_err ( | e | { } )` ==> ``
//@ SUBST `filter_blob_writer . map ( BlobFileWriter :: finish ) . transpose ( ) ? . unwrap_or_default ( )` ==> `blob_files_or_default(finish_filter_blob_writer(filter_blob_writer)?)`
fn merge_tables(
    mut compaction_state: StateGuard,
    version_history_lock: ReadGuard,
    opts: &Options,
    payload: &CompactionPayload,
    /*+*/Tracked(fx): Tracked<&mut Hid>/*-*/
) -> /*+*/(r:/*-*/ Result<(), Error>/*+*/)
    requires opts.config.level_count >= 1
    ensures final(fx).hidden == old(fx).hidden/*-*/
{
    if opts.stop_signal.is_stopped() {
        return Ok(());
    }

    // Fail-safe for buggy compaction strategies
    if compaction_state
        .hidden_set()
        .should_decline_compaction(payload.ids(), Tracked(fx))
    {
        return Ok(());
    }

    let current_super_version = version_history_lock.latest_version();

    let Some(tables) = collect_tables(payload, current_super_version)
    else {
        return Ok(());
    };

    let mut blob_frag_map = FragmentationMap::default();

    let Some(mut merge_iter) = create_compaction_stream(
        current_super_version,
        &payload.id_vec(),
        opts.mvcc_gc_watermark,
    )?
    else {
        return Ok(());
    };

    let dst_lvl = payload.canonical_level;
    let last_level = opts.config.level_count - 1;

    // NOTE: Only evict tombstones when reaching the last level,
    // That way we don't resurrect data beneath the tombstone
    let is_last_level = payload.dest_level == last_level;

    merge_iter = merge_iter
        .evict_tombstones(is_last_level)
        .zero_seqnos(false);

    let blobs_folder = opts.config.path.join(BLOBS_FOLDER);

    let filter_ctx = Context { is_last_level };

    // Construct the compaction filter
    let mut compaction_filter = make_compaction_filter(opts, &filter_ctx);

    let mut filter_blob_writer = None;
    let mut merge_iter = merge_iter.with_filter(StreamFilterAdapter::new(
        &mut compaction_filter,
        opts,
        current_super_version,
        &blobs_folder,
        &mut filter_blob_writer,
        &filter_ctx,
    ));

    let table_writer =
        prepare_table_writer(current_super_version, opts, payload)?;

    let start = Instant::now();

    let mut compactor = prepare_compactor(opts, payload, current_super_version, &mut merge_iter, &mut blob_frag_map, table_writer, tables, &blobs_folder)?;

    drop(version_history_lock);

    {
        compaction_state
            .hidden_set_mut()
            .hide(payload.ids(), Tracked(fx));
    }

    // IMPORTANT: Unlock exclusive compaction lock as we are now doing the actual (CPU-intensive) compaction
    drop(compaction_state);

    hidden_guard(payload, opts, Thunk::of(run_merge_loop(merge_iter, &mut compactor, opts)), Tracked(fx))?;

    if let Some(filter) = compaction_filter {
        filter.finish();
    }

    let mut compaction_state = opts.compaction_state.lock().expect("lock is poisoned");

    let mut version_history_lock = opts.version_history.write().expect("lock is poisoned");

    let extra_blob_files = blob_files_or_default(match finish_filter_blob_writer(filter_blob_writer) { Ok(v__) => v__, Err(e) => {
            // NOTE: We cannot use hidden_guard here because we already locked the compaction state

            compaction_state
                .hidden_set_mut()
                .show(payload.ids(), Tracked(fx));
        return Err(e); } });

    match compactor
        .finish(
            &mut version_history_lock,
            opts,
            payload,
            dst_lvl,
            blob_frag_map,
            extra_blob_files,
        ) { Ok(v__) => v__, Err(e) => {
            // NOTE: We cannot use hidden_guard here because we already locked the compaction state

            compaction_state
                .hidden_set_mut()
                .show(payload.ids(), Tracked(fx));
        return Err(e); } };

    compaction_state
        .hidden_set_mut()
        .show(payload.ids(), Tracked(fx));

    version_history_lock
        .maintenance(&opts.config.path, opts.mvcc_gc_watermark)?;

    drop(version_history_lock);
    drop(compaction_state);

    Ok(())
}
//@ END

}
fn main() {}
