//@ UNIT merger
// Merger (src/merge.rs): the k-way merge over sorted sources yields, from the front, an entry that is <= everything that remains
// and, from the back, one that is >= everything that remains - for any interleaving of next and next_back - and never loses,
// duplicates or invents an entry.  Obligations C03.8, C01.21
use vstd::prelude::*;
use vstd::std_specs::cmp::*;

//@ FROM src/lib.rs :: - :: macro_rules fail_iter
//@ SUBST `e . into ( )` ==> `e`
macro_rules! fail_iter {
    ($e:expr) => {
        match $e {
            Ok(v) => v,
            Err(e) => return Some(Err(e)),
        }
    };
}
//@ END

verus! {

global size_of usize == 8;

//@ INCLUDE prelude/key.rs
//@ INCLUDE prelude/entry.rs

type IterItem = Result<InternalValue, Error>;

/// the order of InternalKey (proved for InternalKey::cmp in unit orderings, C01.1): user key ascending, then seqno descending
spec fn le(a: InternalValue, b: InternalValue) -> bool {
    a.key.user_key.rank() < b.key.user_key.rank() || (a.key.user_key.rank() == b.key.user_key.rank() && a.key.seqno >= b.key.seqno)
}
/// a double-ended source (table / run / memtable iterator): `rest` = what it will still deliver, front to back
struct Src { ghost rest: Seq<IterItem> }
impl Src {
    #[verifier::external_body]
    fn next(&mut self) -> (r: Option<IterItem>)
        ensures old(self).rest.len() == 0 ==> r is None && final(self).rest == old(self).rest,
            old(self).rest.len() > 0 ==> r == Some(old(self).rest[0]) && final(self).rest == old(self).rest.skip(1),
    { unimplemented!() }
    #[verifier::external_body]
    fn next_back(&mut self) -> (r: Option<IterItem>)
        ensures old(self).rest.len() == 0 ==> r is None && final(self).rest == old(self).rest,
            old(self).rest.len() > 0 ==> r == Some(old(self).rest.last()) && final(self).rest == old(self).rest.drop_last(),
    { unimplemented!() }
}

//@ FROM src/merge.rs :: - :: struct HeapItem
struct HeapItem(usize, InternalValue);
//@ END

/// interval_heap::IntervalHeap<HeapItem> (TRUSTED): a bag with pop_min / pop_max under HeapItem's order (= the order of the entry's
/// internal key, src/merge.rs: impl Ord for HeapItem)
struct Heap { ghost s: Seq<HeapItem> }
impl Heap {
    #[verifier::external_body] fn with_capacity(n: usize) -> (r: Self) ensures r.s.len() == 0 { unimplemented!() }
    #[verifier::external_body] fn push(&mut self, x: HeapItem) ensures final(self).s == old(self).s.push(x) { unimplemented!() }
    #[verifier::external_body]
    fn pop_min(&mut self) -> (r: Option<HeapItem>)
        ensures old(self).s.len() == 0 ==> r is None && final(self).s == old(self).s,
            old(self).s.len() > 0 ==> r is Some && exists|k: int| 0 <= k < old(self).s.len() && #[trigger] old(self).s[k] == r->Some_0 && final(self).s == old(self).s.remove(k)
                && forall|j: int| 0 <= j < old(self).s.len() ==> le(r->Some_0.1, (#[trigger] old(self).s[j]).1),
    { unimplemented!() }
    #[verifier::external_body]
    fn pop_max(&mut self) -> (r: Option<HeapItem>)
        ensures old(self).s.len() == 0 ==> r is None && final(self).s == old(self).s,
            old(self).s.len() > 0 ==> r is Some && exists|k: int| 0 <= k < old(self).s.len() && #[trigger] old(self).s[k] == r->Some_0 && final(self).s == old(self).s.remove(k)
                && forall|j: int| 0 <= j < old(self).s.len() ==> le((#[trigger] old(self).s[j]).1, r->Some_0.1),
    { unimplemented!() }
}

//@ SUBST `Merger < I >` ==> `Merger`
//@ SUBST `Vec < I >` ==> `Vec<Src>`
//@ SUBST `Heap < HeapItem >` ==> `Heap`
//@ FROM src/merge.rs :: - :: struct Merger
struct Merger {
    iterators: Vec<Src>,
    heap: Heap,
    initialized_lo: bool,
    initialized_hi: bool,
}
//@ END

/// the Ok entries of a source are in ascending order
spec fn sorted(s: Seq<IterItem>) -> bool { forall|a: int, b: int| 0 <= a < b < s.len() && (#[trigger] s[a]) is Ok && (#[trigger] s[b]) is Ok ==> le(s[a]->Ok_0, s[b]->Ok_0) }
impl Merger {
    /// entry v is still to be delivered: it waits in the heap or in a source
    spec fn holds(&self, v: InternalValue) -> bool {
        (exists|k: int| 0 <= k < self.heap.s.len() && (#[trigger] self.heap.s[k]).1 == v)
        || (exists|i: int, a: int| 0 <= i < self.iterators@.len() && 0 <= a < self.iterators@[i].rest.len() && #[trigger] self.iterators@[i].rest[a] == Ok::<InternalValue, Error>(v))
    }
    /// front guard: once the low side is initialised, every entry waiting in source i has an entry of source i at or before it in the heap
    spec fn guard_lo(&self) -> bool {
        self.initialized_lo ==> forall|i: int, a: int| 0 <= i < self.iterators@.len() && 0 <= a < self.iterators@[i].rest.len() && (#[trigger] self.iterators@[i].rest[a]) is Ok
            ==> exists|k: int| 0 <= k < self.heap.s.len() && (#[trigger] self.heap.s[k]).0 == i && le(self.heap.s[k].1, self.iterators@[i].rest[a]->Ok_0)
    }
    spec fn guard_hi(&self) -> bool {
        self.initialized_hi ==> forall|i: int, a: int| 0 <= i < self.iterators@.len() && 0 <= a < self.iterators@[i].rest.len() && (#[trigger] self.iterators@[i].rest[a]) is Ok
            ==> exists|k: int| 0 <= k < self.heap.s.len() && (#[trigger] self.heap.s[k]).0 == i && le(self.iterators@[i].rest[a]->Ok_0, self.heap.s[k].1)
    }
    spec fn inv(&self) -> bool {
        (forall|i: int| 0 <= i < self.iterators@.len() ==> sorted(#[trigger] self.iterators@[i].rest))
        && (forall|k: int| 0 <= k < self.heap.s.len() ==> (#[trigger] self.heap.s[k]).0 < self.iterators@.len())
        && self.guard_lo() && self.guard_hi()
    }
}


/// one step of initialize_lo: the front entry x of source `idx` moved into the heap
proof fn lemma_moved_front(pre: Merger, post: Merger, idx: int, orig: &Merger)
    requires
        0 <= idx < pre.iterators@.len(), post.iterators@.len() == pre.iterators@.len(), idx <= usize::MAX,
        pre.iterators@[idx].rest.len() > 0, pre.iterators@[idx].rest[0] is Ok,
        post.iterators@[idx].rest == pre.iterators@[idx].rest.skip(1),
        forall|j: int| 0 <= j < pre.iterators@.len() && j != idx ==> post.iterators@[j] == pre.iterators@[j],
        post.heap.s == pre.heap.s.push(HeapItem(idx as usize, pre.iterators@[idx].rest[0]->Ok_0)),
        post.initialized_hi == pre.initialized_hi, !pre.initialized_lo, !post.initialized_lo,
        forall|i: int| 0 <= i < pre.iterators@.len() ==> sorted(#[trigger] pre.iterators@[i].rest),
        forall|k: int| 0 <= k < pre.heap.s.len() ==> (#[trigger] pre.heap.s[k]).0 < pre.iterators@.len(),
        pre.guard_hi(),
        forall|i: int, a: int| 0 <= i < idx && 0 <= a < pre.iterators@[i].rest.len() && (#[trigger] pre.iterators@[i].rest[a]) is Ok
            ==> exists|k: int| 0 <= k < pre.heap.s.len() && (#[trigger] pre.heap.s[k]).0 == i && le(pre.heap.s[k].1, pre.iterators@[i].rest[a]->Ok_0),
        forall|v: InternalValue| pre.holds(v) <==> orig.holds(v),
    ensures
        forall|i: int| 0 <= i < post.iterators@.len() ==> sorted(#[trigger] post.iterators@[i].rest),
        forall|k: int| 0 <= k < post.heap.s.len() ==> (#[trigger] post.heap.s[k]).0 < post.iterators@.len(),
        post.guard_hi(),
        forall|i: int, a: int| 0 <= i < idx + 1 && 0 <= a < post.iterators@[i].rest.len() && (#[trigger] post.iterators@[i].rest[a]) is Ok
            ==> exists|k: int| 0 <= k < post.heap.s.len() && (#[trigger] post.heap.s[k]).0 == i && le(post.heap.s[k].1, post.iterators@[i].rest[a]->Ok_0),
        forall|v: InternalValue| post.holds(v) <==> orig.holds(v),
{
    let x = pre.iterators@[idx].rest[0]->Ok_0;
    let n = pre.heap.s.len() as int;
    assert(post.heap.s[n] == HeapItem(idx as usize, x));
    assert forall|k: int| 0 <= k < n implies post.heap.s[k] == pre.heap.s[k] by {}
    // sortedness
    assert forall|i: int| 0 <= i < post.iterators@.len() implies sorted(#[trigger] post.iterators@[i].rest) by {
        if i == idx {
            assert forall|a: int, b: int| 0 <= a < b < post.iterators@[i].rest.len() && (#[trigger] post.iterators@[i].rest[a]) is Ok && (#[trigger] post.iterators@[i].rest[b]) is Ok
                implies le(post.iterators@[i].rest[a]->Ok_0, post.iterators@[i].rest[b]->Ok_0) by {
                assert(post.iterators@[i].rest[a] == pre.iterators@[i].rest[a + 1]);
                assert(post.iterators@[i].rest[b] == pre.iterators@[i].rest[b + 1]);
                assert(sorted(pre.iterators@[i].rest));
            }
        } else { assert(sorted(pre.iterators@[i].rest)); }
    }
    // back guard
    if post.initialized_hi {
        assert forall|i: int, a: int| 0 <= i < post.iterators@.len() && 0 <= a < post.iterators@[i].rest.len() && (#[trigger] post.iterators@[i].rest[a]) is Ok
            implies exists|k: int| 0 <= k < post.heap.s.len() && (#[trigger] post.heap.s[k]).0 == i && le(post.iterators@[i].rest[a]->Ok_0, post.heap.s[k].1) by {
            let a0 = if i == idx { a + 1 } else { a };
            assert(post.iterators@[i].rest[a] == pre.iterators@[i].rest[a0]);
            let k = choose|k: int| 0 <= k < pre.heap.s.len() && (#[trigger] pre.heap.s[k]).0 == i && le(pre.iterators@[i].rest[a0]->Ok_0, pre.heap.s[k].1);
            assert(post.heap.s[k] == pre.heap.s[k]);
        }
    }
    // front guard for sources 0..=idx
    assert forall|i: int, a: int| 0 <= i < idx + 1 && 0 <= a < post.iterators@[i].rest.len() && (#[trigger] post.iterators@[i].rest[a]) is Ok
        implies exists|k: int| 0 <= k < post.heap.s.len() && (#[trigger] post.heap.s[k]).0 == i && le(post.heap.s[k].1, post.iterators@[i].rest[a]->Ok_0) by {
        if i == idx {
            assert(post.iterators@[i].rest[a] == pre.iterators@[i].rest[a + 1]);
            assert(sorted(pre.iterators@[i].rest));
            assert(le(x, pre.iterators@[i].rest[a + 1]->Ok_0));
            assert((idx as usize) as int == idx);
            assert(post.heap.s[n].0 == i);
        } else {
            assert(post.iterators@[i].rest[a] == pre.iterators@[i].rest[a]);
            let k = choose|k: int| 0 <= k < pre.heap.s.len() && (#[trigger] pre.heap.s[k]).0 == i && le(pre.heap.s[k].1, pre.iterators@[i].rest[a]->Ok_0);
            assert(post.heap.s[k] == pre.heap.s[k]);
        }
    }
    // nothing lost, nothing invented
    assert forall|v: InternalValue| post.holds(v) <==> pre.holds(v) by {
        if post.holds(v) {
            if exists|k: int| 0 <= k < post.heap.s.len() && (#[trigger] post.heap.s[k]).1 == v {
                let k = choose|k: int| 0 <= k < post.heap.s.len() && (#[trigger] post.heap.s[k]).1 == v;
                if k == n { assert(pre.iterators@[idx].rest[0] == Ok::<InternalValue, Error>(v)); } else { assert(pre.heap.s[k].1 == v); }
            } else {
                let (i, a) = choose|i: int, a: int| 0 <= i < post.iterators@.len() && 0 <= a < post.iterators@[i].rest.len() && #[trigger] post.iterators@[i].rest[a] == Ok::<InternalValue, Error>(v);
                let a0 = if i == idx { a + 1 } else { a };
                assert(pre.iterators@[i].rest[a0] == Ok::<InternalValue, Error>(v));
            }
        }
        if pre.holds(v) {
            if exists|k: int| 0 <= k < pre.heap.s.len() && (#[trigger] pre.heap.s[k]).1 == v {
                let k = choose|k: int| 0 <= k < pre.heap.s.len() && (#[trigger] pre.heap.s[k]).1 == v;
                assert(post.heap.s[k].1 == v);
            } else {
                let (i, a) = choose|i: int, a: int| 0 <= i < pre.iterators@.len() && 0 <= a < pre.iterators@[i].rest.len() && #[trigger] pre.iterators@[i].rest[a] == Ok::<InternalValue, Error>(v);
                if i == idx && a == 0 { assert(post.heap.s[n].1 == v); }
                else { let a1 = if i == idx { a - 1 } else { a }; assert(post.iterators@[i].rest[a1] == Ok::<InternalValue, Error>(v)); }
            }
        }
    }
}

/// one step of initialize_hi: the back entry x of source `idx` moved into the heap
proof fn lemma_moved_back(pre: Merger, post: Merger, idx: int, orig: &Merger)
    requires
        0 <= idx < pre.iterators@.len(), post.iterators@.len() == pre.iterators@.len(), idx <= usize::MAX,
        pre.iterators@[idx].rest.len() > 0, pre.iterators@[idx].rest.last() is Ok,
        post.iterators@[idx].rest == pre.iterators@[idx].rest.drop_last(),
        forall|j: int| 0 <= j < pre.iterators@.len() && j != idx ==> post.iterators@[j] == pre.iterators@[j],
        post.heap.s == pre.heap.s.push(HeapItem(idx as usize, pre.iterators@[idx].rest.last()->Ok_0)),
        post.initialized_lo == pre.initialized_lo, !pre.initialized_hi, !post.initialized_hi,
        forall|i: int| 0 <= i < pre.iterators@.len() ==> sorted(#[trigger] pre.iterators@[i].rest),
        forall|k: int| 0 <= k < pre.heap.s.len() ==> (#[trigger] pre.heap.s[k]).0 < pre.iterators@.len(),
        pre.guard_lo(),
        forall|i: int, a: int| 0 <= i < idx && 0 <= a < pre.iterators@[i].rest.len() && (#[trigger] pre.iterators@[i].rest[a]) is Ok
            ==> exists|k: int| 0 <= k < pre.heap.s.len() && (#[trigger] pre.heap.s[k]).0 == i && le(pre.iterators@[i].rest[a]->Ok_0, pre.heap.s[k].1),
        forall|v: InternalValue| pre.holds(v) <==> orig.holds(v),
    ensures
        forall|i: int| 0 <= i < post.iterators@.len() ==> sorted(#[trigger] post.iterators@[i].rest),
        forall|k: int| 0 <= k < post.heap.s.len() ==> (#[trigger] post.heap.s[k]).0 < post.iterators@.len(),
        post.guard_lo(),
        forall|i: int, a: int| 0 <= i < idx + 1 && 0 <= a < post.iterators@[i].rest.len() && (#[trigger] post.iterators@[i].rest[a]) is Ok
            ==> exists|k: int| 0 <= k < post.heap.s.len() && (#[trigger] post.heap.s[k]).0 == i && le(post.iterators@[i].rest[a]->Ok_0, post.heap.s[k].1),
        forall|v: InternalValue| post.holds(v) <==> orig.holds(v),
{
    let last = pre.iterators@[idx].rest.len() - 1;
    let x = pre.iterators@[idx].rest[last]->Ok_0;
    let n = pre.heap.s.len() as int;
    assert(post.heap.s[n] == HeapItem(idx as usize, x));
    assert((idx as usize) as int == idx);
    assert forall|k: int| 0 <= k < n implies post.heap.s[k] == pre.heap.s[k] by {}
    assert forall|i: int| 0 <= i < post.iterators@.len() implies sorted(#[trigger] post.iterators@[i].rest) by {
        if i == idx {
            assert forall|a: int, b: int| 0 <= a < b < post.iterators@[i].rest.len() && (#[trigger] post.iterators@[i].rest[a]) is Ok && (#[trigger] post.iterators@[i].rest[b]) is Ok
                implies le(post.iterators@[i].rest[a]->Ok_0, post.iterators@[i].rest[b]->Ok_0) by {
                assert(post.iterators@[i].rest[a] == pre.iterators@[i].rest[a]);
                assert(post.iterators@[i].rest[b] == pre.iterators@[i].rest[b]);
                assert(sorted(pre.iterators@[i].rest));
            }
        } else { assert(sorted(pre.iterators@[i].rest)); }
    }
    if post.initialized_lo {
        assert forall|i: int, a: int| 0 <= i < post.iterators@.len() && 0 <= a < post.iterators@[i].rest.len() && (#[trigger] post.iterators@[i].rest[a]) is Ok
            implies exists|k: int| 0 <= k < post.heap.s.len() && (#[trigger] post.heap.s[k]).0 == i && le(post.heap.s[k].1, post.iterators@[i].rest[a]->Ok_0) by {
            assert(post.iterators@[i].rest[a] == pre.iterators@[i].rest[a]);
            let k = choose|k: int| 0 <= k < pre.heap.s.len() && (#[trigger] pre.heap.s[k]).0 == i && le(pre.heap.s[k].1, pre.iterators@[i].rest[a]->Ok_0);
            assert(post.heap.s[k] == pre.heap.s[k]);
        }
    }
    assert forall|i: int, a: int| 0 <= i < idx + 1 && 0 <= a < post.iterators@[i].rest.len() && (#[trigger] post.iterators@[i].rest[a]) is Ok
        implies exists|k: int| 0 <= k < post.heap.s.len() && (#[trigger] post.heap.s[k]).0 == i && le(post.iterators@[i].rest[a]->Ok_0, post.heap.s[k].1) by {
        assert(post.iterators@[i].rest[a] == pre.iterators@[i].rest[a]);
        if i == idx {
            assert(sorted(pre.iterators@[i].rest));
            assert(le(pre.iterators@[i].rest[a]->Ok_0, x));
            assert(post.heap.s[n].0 == i);
        } else {
            let k = choose|k: int| 0 <= k < pre.heap.s.len() && (#[trigger] pre.heap.s[k]).0 == i && le(pre.iterators@[i].rest[a]->Ok_0, pre.heap.s[k].1);
            assert(post.heap.s[k] == pre.heap.s[k]);
        }
    }
    assert forall|v: InternalValue| post.holds(v) <==> pre.holds(v) by {
        if post.holds(v) {
            if exists|k: int| 0 <= k < post.heap.s.len() && (#[trigger] post.heap.s[k]).1 == v {
                let k = choose|k: int| 0 <= k < post.heap.s.len() && (#[trigger] post.heap.s[k]).1 == v;
                if k == n { assert(pre.iterators@[idx].rest[last] == Ok::<InternalValue, Error>(v)); } else { assert(pre.heap.s[k].1 == v); }
            } else {
                let (i, a) = choose|i: int, a: int| 0 <= i < post.iterators@.len() && 0 <= a < post.iterators@[i].rest.len() && #[trigger] post.iterators@[i].rest[a] == Ok::<InternalValue, Error>(v);
                assert(pre.iterators@[i].rest[a] == Ok::<InternalValue, Error>(v));
            }
        }
        if pre.holds(v) {
            if exists|k: int| 0 <= k < pre.heap.s.len() && (#[trigger] pre.heap.s[k]).1 == v {
                let k = choose|k: int| 0 <= k < pre.heap.s.len() && (#[trigger] pre.heap.s[k]).1 == v;
                assert(post.heap.s[k].1 == v);
            } else {
                let (i, a) = choose|i: int, a: int| 0 <= i < pre.iterators@.len() && 0 <= a < pre.iterators@[i].rest.len() && #[trigger] pre.iterators@[i].rest[a] == Ok::<InternalValue, Error>(v);
                if i == idx && a == last { assert(post.heap.s[n].1 == v); }
                else { assert(post.iterators@[i].rest[a] == Ok::<InternalValue, Error>(v)); }
            }
        }
    }
}

spec fn heap_has(h: Seq<HeapItem>, i: int, v: InternalValue, lo: bool) -> bool {
    exists|k: int| 0 <= k < h.len() && (#[trigger] h[k]).0 == i && (if lo { le(h[k].1, v) } else { le(v, h[k].1) })
}
proof fn lemma_le_trans(a: InternalValue, b: InternalValue, c: InternalValue) requires le(a, b), le(b, c) ensures le(a, c) {}

/// the step of next(): heap item k = (i0, x) (a minimum of the heap) is removed and, if source i0 still has an entry, its front is pushed
proof fn lemma_pop_front(pre: Merger, post: Merger, k: int, refill: bool)
    requires
        pre.inv(), pre.initialized_lo, 0 <= k < pre.heap.s.len(),
        forall|j: int| 0 <= j < pre.heap.s.len() ==> le(pre.heap.s[k].1, (#[trigger] pre.heap.s[j]).1),
        post.iterators@.len() == pre.iterators@.len(), post.initialized_lo == pre.initialized_lo, post.initialized_hi == pre.initialized_hi,
        forall|j: int| 0 <= j < pre.iterators@.len() && j != pre.heap.s[k].0 ==> post.iterators@[j] == pre.iterators@[j],
        ({ let i0 = pre.heap.s[k].0 as int; let r0 = pre.iterators@[i0].rest;
           if refill { r0.len() > 0 && r0[0] is Ok && post.iterators@[i0].rest == r0.skip(1) && post.heap.s == pre.heap.s.remove(k).push(HeapItem(i0 as usize, r0[0]->Ok_0)) }
           else { r0.len() == 0 && post.iterators@[i0].rest == r0 && post.heap.s == pre.heap.s.remove(k) } }),
    ensures
        post.inv(),
        pre.holds(pre.heap.s[k].1),
        forall|v: InternalValue| post.holds(v) ==> le(pre.heap.s[k].1, v),
        forall|v: InternalValue| post.holds(v) ==> pre.holds(v),
        forall|v: InternalValue| pre.holds(v) ==> post.holds(v) || v == pre.heap.s[k].1,
{
    let x = pre.heap.s[k].1;
    let i0 = pre.heap.s[k].0 as int;
    let r0 = pre.iterators@[i0].rest;
    let h0 = pre.heap.s;
    let h1 = h0.remove(k);
    let n1 = h1.len() as int;
    assert forall|w: int| 0 <= w < n1 implies #[trigger] h1[w] == h0[if w < k { w } else { w + 1 }] by {}
    assert forall|w: int| 0 <= w < n1 implies post.heap.s[w] == #[trigger] h1[w] by {}
    // x <= front of its own source
    if r0.len() > 0 && r0[0] is Ok {
        let g = choose|g: int| 0 <= g < h0.len() && (#[trigger] h0[g]).0 == i0 && le(h0[g].1, r0[0]->Ok_0);
        lemma_le_trans(x, h0[g].1, r0[0]->Ok_0);
    }
    // sortedness + index bound
    assert forall|i: int| 0 <= i < post.iterators@.len() implies sorted(#[trigger] post.iterators@[i].rest) by {
        assert(sorted(pre.iterators@[i].rest));
        if i == i0 && refill {
            assert forall|a: int, b: int| 0 <= a < b < post.iterators@[i].rest.len() && (#[trigger] post.iterators@[i].rest[a]) is Ok && (#[trigger] post.iterators@[i].rest[b]) is Ok
                implies le(post.iterators@[i].rest[a]->Ok_0, post.iterators@[i].rest[b]->Ok_0) by {
                assert(post.iterators@[i].rest[a] == r0[a + 1]); assert(post.iterators@[i].rest[b] == r0[b + 1]);
            }
        }
    }
    assert forall|w: int| 0 <= w < post.heap.s.len() implies (#[trigger] post.heap.s[w]).0 < post.iterators@.len() by {
        if w < n1 { assert(post.heap.s[w] == h0[if w < k { w } else { w + 1 }]); } else { assert((i0 as usize) as int == i0); }
    }
    // guards
    assert forall|i: int, a: int| 0 <= i < post.iterators@.len() && 0 <= a < post.iterators@[i].rest.len() && (#[trigger] post.iterators@[i].rest[a]) is Ok
        implies heap_has(post.heap.s, i, post.iterators@[i].rest[a]->Ok_0, true) by {
        let a0 = if i == i0 && refill { a + 1 } else { a };
        let v = post.iterators@[i].rest[a]->Ok_0;
        assert(post.iterators@[i].rest[a] == pre.iterators@[i].rest[a0]);
        if i == i0 && refill {
            assert(sorted(r0)); assert(le(r0[0]->Ok_0, v));
            assert((i0 as usize) as int == i0);
            assert(post.heap.s[n1].0 == i && le(post.heap.s[n1].1, v));
        } else {
            let g = choose|g: int| 0 <= g < h0.len() && (#[trigger] h0[g]).0 == i && le(h0[g].1, pre.iterators@[i].rest[a0]->Ok_0);
            // i == i0 is impossible here without refill (its rest is empty), so g != k or another guard exists
            if g == k { assert(i == i0); assert(r0.len() == 0); }
            let w = if g < k { g } else { g - 1 };
            assert(post.heap.s[w] == h0[g]);
        }
    }
    if post.initialized_hi {
        assert forall|i: int, a: int| 0 <= i < post.iterators@.len() && 0 <= a < post.iterators@[i].rest.len() && (#[trigger] post.iterators@[i].rest[a]) is Ok
            implies heap_has(post.heap.s, i, post.iterators@[i].rest[a]->Ok_0, false) by {
            let a0 = if i == i0 && refill { a + 1 } else { a };
            let v = post.iterators@[i].rest[a]->Ok_0;
            assert(post.iterators@[i].rest[a] == pre.iterators@[i].rest[a0]);
            let g = choose|g: int| 0 <= g < h0.len() && (#[trigger] h0[g]).0 == i && le(pre.iterators@[i].rest[a0]->Ok_0, h0[g].1);
            if g == k {
                // the removed item was this entry's back guard: then v <= x <= refilled front
                assert(i == i0); assert(refill);
                lemma_le_trans(v, x, r0[0]->Ok_0);
                assert((i0 as usize) as int == i0);
                assert(post.heap.s[n1].0 == i && le(v, post.heap.s[n1].1));
            } else {
                let w = if g < k { g } else { g - 1 };
                assert(post.heap.s[w] == h0[g]);
            }
        }
    }
    assert(post.guard_lo()) by {
        assert forall|i: int, a: int| 0 <= i < post.iterators@.len() && 0 <= a < post.iterators@[i].rest.len() && (#[trigger] post.iterators@[i].rest[a]) is Ok
            implies exists|kk: int| 0 <= kk < post.heap.s.len() && (#[trigger] post.heap.s[kk]).0 == i && le(post.heap.s[kk].1, post.iterators@[i].rest[a]->Ok_0) by {
            assert(heap_has(post.heap.s, i, post.iterators@[i].rest[a]->Ok_0, true));
        }
    }
    assert(post.guard_hi()) by {
        if post.initialized_hi {
            assert forall|i: int, a: int| 0 <= i < post.iterators@.len() && 0 <= a < post.iterators@[i].rest.len() && (#[trigger] post.iterators@[i].rest[a]) is Ok
                implies exists|kk: int| 0 <= kk < post.heap.s.len() && (#[trigger] post.heap.s[kk]).0 == i && le(post.iterators@[i].rest[a]->Ok_0, post.heap.s[kk].1) by {
                assert(heap_has(post.heap.s, i, post.iterators@[i].rest[a]->Ok_0, false));
            }
        }
    }
    // membership
    assert(pre.holds(x)) by { assert(pre.heap.s[k].1 == x); }
    assert forall|v: InternalValue| post.holds(v) implies pre.holds(v) && le(x, v) by {
        if exists|w: int| 0 <= w < post.heap.s.len() && (#[trigger] post.heap.s[w]).1 == v {
            let w = choose|w: int| 0 <= w < post.heap.s.len() && (#[trigger] post.heap.s[w]).1 == v;
            if w < n1 { let g = if w < k { w } else { w + 1 }; assert(h0[g].1 == v); }
            else { assert(r0[0] == Ok::<InternalValue, Error>(v)); assert(pre.iterators@[i0].rest[0] == Ok::<InternalValue, Error>(v)); }
        } else {
            let (i, a) = choose|i: int, a: int| 0 <= i < post.iterators@.len() && 0 <= a < post.iterators@[i].rest.len() && #[trigger] post.iterators@[i].rest[a] == Ok::<InternalValue, Error>(v);
            let a0 = if i == i0 && refill { a + 1 } else { a };
            assert(pre.iterators@[i].rest[a0] == Ok::<InternalValue, Error>(v));
            // x <= guard <= v
            assert(heap_has(post.heap.s, i, v, true));
            let kk = choose|kk: int| 0 <= kk < post.heap.s.len() && (#[trigger] post.heap.s[kk]).0 == i && le(post.heap.s[kk].1, v);
            if kk < n1 { let g = if kk < k { kk } else { kk + 1 }; assert(post.heap.s[kk] == h0[g]); lemma_le_trans(x, h0[g].1, v); }
            else { lemma_le_trans(x, r0[0]->Ok_0, v); }
        }
    }
    assert forall|v: InternalValue| pre.holds(v) implies post.holds(v) || v == x by {
        if exists|g: int| 0 <= g < h0.len() && (#[trigger] h0[g]).1 == v {
            let g = choose|g: int| 0 <= g < h0.len() && (#[trigger] h0[g]).1 == v;
            if g != k { let w = if g < k { g } else { g - 1 }; assert(post.heap.s[w].1 == v); }
        } else {
            let (i, a) = choose|i: int, a: int| 0 <= i < pre.iterators@.len() && 0 <= a < pre.iterators@[i].rest.len() && #[trigger] pre.iterators@[i].rest[a] == Ok::<InternalValue, Error>(v);
            if i == i0 && refill { if a == 0 { assert(post.heap.s[n1].1 == v); } else { assert(post.iterators@[i].rest[a - 1] == Ok::<InternalValue, Error>(v)); } }
            else { assert(post.iterators@[i].rest[a] == Ok::<InternalValue, Error>(v)); }
        }
    }
}

/// the step of next_back(): heap item k = (i0, x) (a maximum of the heap) is removed and, if source i0 still has an entry, its back is pushed
proof fn lemma_pop_back(pre: Merger, post: Merger, k: int, refill: bool)
    requires
        pre.inv(), pre.initialized_hi, 0 <= k < pre.heap.s.len(),
        forall|j: int| 0 <= j < pre.heap.s.len() ==> le((#[trigger] pre.heap.s[j]).1, pre.heap.s[k].1),
        post.iterators@.len() == pre.iterators@.len(), post.initialized_lo == pre.initialized_lo, post.initialized_hi == pre.initialized_hi,
        forall|j: int| 0 <= j < pre.iterators@.len() && j != pre.heap.s[k].0 ==> post.iterators@[j] == pre.iterators@[j],
        ({ let i0 = pre.heap.s[k].0 as int; let r0 = pre.iterators@[i0].rest;
           if refill { r0.len() > 0 && r0.last() is Ok && post.iterators@[i0].rest == r0.drop_last() && post.heap.s == pre.heap.s.remove(k).push(HeapItem(i0 as usize, r0.last()->Ok_0)) }
           else { r0.len() == 0 && post.iterators@[i0].rest == r0 && post.heap.s == pre.heap.s.remove(k) } }),
    ensures
        post.inv(),
        pre.holds(pre.heap.s[k].1),
        forall|v: InternalValue| post.holds(v) ==> le(v, pre.heap.s[k].1),
        forall|v: InternalValue| post.holds(v) ==> pre.holds(v),
        forall|v: InternalValue| pre.holds(v) ==> post.holds(v) || v == pre.heap.s[k].1,
{
    let x = pre.heap.s[k].1;
    let i0 = pre.heap.s[k].0 as int;
    let r0 = pre.iterators@[i0].rest;
    let h0 = pre.heap.s;
    let h1 = h0.remove(k);
    let n1 = h1.len() as int;
    assert forall|w: int| 0 <= w < n1 implies #[trigger] h1[w] == h0[if w < k { w } else { w + 1 }] by {}
    assert forall|w: int| 0 <= w < n1 implies post.heap.s[w] == #[trigger] h1[w] by {}
    // back of its own source <= x
    let y = r0.last();
    if r0.len() > 0 && y is Ok {
        assert(r0[r0.len() - 1] == y);
        let g = choose|g: int| 0 <= g < h0.len() && (#[trigger] h0[g]).0 == i0 && le(y->Ok_0, h0[g].1);
        lemma_le_trans(y->Ok_0, h0[g].1, x);
    }
    // sortedness + index bound
    assert forall|i: int| 0 <= i < post.iterators@.len() implies sorted(#[trigger] post.iterators@[i].rest) by {
        assert(sorted(pre.iterators@[i].rest));
        if i == i0 && refill {
            assert forall|a: int, b: int| 0 <= a < b < post.iterators@[i].rest.len() && (#[trigger] post.iterators@[i].rest[a]) is Ok && (#[trigger] post.iterators@[i].rest[b]) is Ok
                implies le(post.iterators@[i].rest[a]->Ok_0, post.iterators@[i].rest[b]->Ok_0) by {
                assert(post.iterators@[i].rest[a] == r0[a]); assert(post.iterators@[i].rest[b] == r0[b]);
            }
        }
    }
    assert forall|w: int| 0 <= w < post.heap.s.len() implies (#[trigger] post.heap.s[w]).0 < post.iterators@.len() by {
        if w < n1 { assert(post.heap.s[w] == h0[if w < k { w } else { w + 1 }]); } else { assert((i0 as usize) as int == i0); }
    }
    // guards
    assert forall|i: int, a: int| 0 <= i < post.iterators@.len() && 0 <= a < post.iterators@[i].rest.len() && (#[trigger] post.iterators@[i].rest[a]) is Ok
        implies heap_has(post.heap.s, i, post.iterators@[i].rest[a]->Ok_0, false) by {
        let a0 = a;
        let v = post.iterators@[i].rest[a]->Ok_0;
        assert(post.iterators@[i].rest[a] == pre.iterators@[i].rest[a0]);
        if i == i0 && refill {
            assert(sorted(r0)); assert(r0[r0.len() - 1] == y); assert(le(v, y->Ok_0));
            assert((i0 as usize) as int == i0);
            assert(post.heap.s[n1].0 == i && le(v, post.heap.s[n1].1));
        } else {
            let g = choose|g: int| 0 <= g < h0.len() && (#[trigger] h0[g]).0 == i && le(pre.iterators@[i].rest[a0]->Ok_0, h0[g].1);
            // i == i0 is impossible here without refill (its rest is empty), so g != k or another guard exists
            if g == k { assert(i == i0); assert(r0.len() == 0); }
            let w = if g < k { g } else { g - 1 };
            assert(post.heap.s[w] == h0[g]);
        }
    }
    if post.initialized_lo {
        assert forall|i: int, a: int| 0 <= i < post.iterators@.len() && 0 <= a < post.iterators@[i].rest.len() && (#[trigger] post.iterators@[i].rest[a]) is Ok
            implies heap_has(post.heap.s, i, post.iterators@[i].rest[a]->Ok_0, true) by {
            let a0 = a;
            let v = post.iterators@[i].rest[a]->Ok_0;
            assert(post.iterators@[i].rest[a] == pre.iterators@[i].rest[a0]);
            let g = choose|g: int| 0 <= g < h0.len() && (#[trigger] h0[g]).0 == i && le(h0[g].1, pre.iterators@[i].rest[a0]->Ok_0);
            if g == k {
                // the removed item was this entry's front guard: then refilled back <= x <= v
                assert(i == i0); assert(refill);
                lemma_le_trans(y->Ok_0, x, v);
                assert((i0 as usize) as int == i0);
                assert(post.heap.s[n1].0 == i && le(post.heap.s[n1].1, v));
            } else {
                let w = if g < k { g } else { g - 1 };
                assert(post.heap.s[w] == h0[g]);
            }
        }
    }
    assert(post.guard_hi()) by {
        assert forall|i: int, a: int| 0 <= i < post.iterators@.len() && 0 <= a < post.iterators@[i].rest.len() && (#[trigger] post.iterators@[i].rest[a]) is Ok
            implies exists|kk: int| 0 <= kk < post.heap.s.len() && (#[trigger] post.heap.s[kk]).0 == i && le(post.iterators@[i].rest[a]->Ok_0, post.heap.s[kk].1) by {
            assert(heap_has(post.heap.s, i, post.iterators@[i].rest[a]->Ok_0, false));
        }
    }
    assert(post.guard_lo()) by {
        if post.initialized_lo {
            assert forall|i: int, a: int| 0 <= i < post.iterators@.len() && 0 <= a < post.iterators@[i].rest.len() && (#[trigger] post.iterators@[i].rest[a]) is Ok
                implies exists|kk: int| 0 <= kk < post.heap.s.len() && (#[trigger] post.heap.s[kk]).0 == i && le(post.heap.s[kk].1, post.iterators@[i].rest[a]->Ok_0) by {
                assert(heap_has(post.heap.s, i, post.iterators@[i].rest[a]->Ok_0, true));
            }
        }
    }
    // membership
    assert(pre.holds(x)) by { assert(pre.heap.s[k].1 == x); }
    assert forall|v: InternalValue| post.holds(v) implies pre.holds(v) && le(v, x) by {
        if exists|w: int| 0 <= w < post.heap.s.len() && (#[trigger] post.heap.s[w]).1 == v {
            let w = choose|w: int| 0 <= w < post.heap.s.len() && (#[trigger] post.heap.s[w]).1 == v;
            if w < n1 { let g = if w < k { w } else { w + 1 }; assert(h0[g].1 == v); }
            else { assert(r0[r0.len() - 1] == Ok::<InternalValue, Error>(v)); assert(pre.iterators@[i0].rest[r0.len() - 1] == Ok::<InternalValue, Error>(v)); }
        } else {
            let (i, a) = choose|i: int, a: int| 0 <= i < post.iterators@.len() && 0 <= a < post.iterators@[i].rest.len() && #[trigger] post.iterators@[i].rest[a] == Ok::<InternalValue, Error>(v);
            let a0 = a;
            assert(pre.iterators@[i].rest[a0] == Ok::<InternalValue, Error>(v));
            // v <= guard <= x
            assert(heap_has(post.heap.s, i, v, false));
            let kk = choose|kk: int| 0 <= kk < post.heap.s.len() && (#[trigger] post.heap.s[kk]).0 == i && le(v, post.heap.s[kk].1);
            if kk < n1 { let g = if kk < k { kk } else { kk + 1 }; assert(post.heap.s[kk] == h0[g]); lemma_le_trans(v, h0[g].1, x); }
            else { lemma_le_trans(v, y->Ok_0, x); }
        }
    }
    assert forall|v: InternalValue| pre.holds(v) implies post.holds(v) || v == x by {
        if exists|g: int| 0 <= g < h0.len() && (#[trigger] h0[g]).1 == v {
            let g = choose|g: int| 0 <= g < h0.len() && (#[trigger] h0[g]).1 == v;
            if g != k { let w = if g < k { g } else { g - 1 }; assert(post.heap.s[w].1 == v); }
        } else {
            let (i, a) = choose|i: int, a: int| 0 <= i < pre.iterators@.len() && 0 <= a < pre.iterators@[i].rest.len() && #[trigger] pre.iterators@[i].rest[a] == Ok::<InternalValue, Error>(v);
            if i == i0 && refill { if a == r0.len() - 1 { assert(post.heap.s[n1].1 == v); } else { assert(post.iterators@[i].rest[a] == Ok::<InternalValue, Error>(v)); } }
            else { assert(post.iterators@[i].rest[a] == Ok::<InternalValue, Error>(v)); }
        }
    }
}

//@ SUBST `crate :: Result < ( ) >` ==> `Result<(), Error>`
//@ SUBST `for ( idx , it ) in self . iterators . iter_mut ( ) . enumerate ( ) {` ==> `for idx in 0..self.iterators.len() { let it = &mut self.iterators[idx];`
impl Merger {
//@ FROM src/merge.rs :: impl < I : Iterator < Item = IterItem > > Merger < I > :: fn initialize_lo :: OBL C03.8, C01.21
    fn initialize_lo(&mut self) -> /*+*/(r:/*-*/ Result<(), Error>/*+*/)
        requires old(self).inv(), !old(self).initialized_lo
        ensures r is Ok ==> final(self).inv() && final(self).initialized_lo && final(self).initialized_hi == old(self).initialized_hi
            && final(self).iterators@.len() == old(self).iterators@.len()
            && forall|v: InternalValue| final(self).holds(v) <==> old(self).holds(v)/*-*/
    {
        /*+*/let ghost n = self.iterators@.len();/*-*/
        for idx in 0..self.iterators.len()
            /*+*/invariant n == self.iterators@.len(), n == old(self).iterators@.len(), !self.initialized_lo, self.initialized_hi == old(self).initialized_hi,
                forall|i: int| 0 <= i < n ==> sorted(#[trigger] self.iterators@[i].rest),
                forall|k: int| 0 <= k < self.heap.s.len() ==> (#[trigger] self.heap.s[k]).0 < n,
                self.guard_hi(),
                forall|i: int, a: int| 0 <= i < idx && 0 <= a < self.iterators@[i].rest.len() && (#[trigger] self.iterators@[i].rest[a]) is Ok
                    ==> exists|k: int| 0 <= k < self.heap.s.len() && (#[trigger] self.heap.s[k]).0 == i && le(self.heap.s[k].1, self.iterators@[i].rest[a]->Ok_0),
                forall|v: InternalValue| self.holds(v) <==> old(self).holds(v),/*-*/
        { /*+*/let ghost pre = *self;/*-*/ let it = &mut self.iterators[idx];
            if let Some(item) = it.next() {
                let item = item?;
                self.heap.push(HeapItem(idx, item));
                /*+*/proof { lemma_moved_front(pre, *self, idx as int, old(self)); }/*-*/
            }
            /*+*/proof { if pre.iterators@[idx as int].rest.len() == 0 { assert(self.iterators@ =~= pre.iterators@); assert forall|v: InternalValue| self.holds(v) <==> pre.holds(v) by {} } }/*-*/
        }
        self.initialized_lo = true;
        Ok(())
    }
//@ END

//@ FROM src/merge.rs :: impl < I : DoubleEndedIterator < Item = IterItem > > Merger < I > :: fn initialize_hi :: OBL C03.8, C01.21
    fn initialize_hi(&mut self) -> /*+*/(r:/*-*/ Result<(), Error>/*+*/)
        requires old(self).inv(), !old(self).initialized_hi
        ensures r is Ok ==> final(self).inv() && final(self).initialized_hi && final(self).initialized_lo == old(self).initialized_lo
            && final(self).iterators@.len() == old(self).iterators@.len()
            && forall|v: InternalValue| final(self).holds(v) <==> old(self).holds(v)/*-*/
    {
        /*+*/let ghost n = self.iterators@.len();/*-*/
        for idx in 0..self.iterators.len()
            /*+*/invariant n == self.iterators@.len(), n == old(self).iterators@.len(), !self.initialized_hi, self.initialized_lo == old(self).initialized_lo,
                forall|i: int| 0 <= i < n ==> sorted(#[trigger] self.iterators@[i].rest),
                forall|k: int| 0 <= k < self.heap.s.len() ==> (#[trigger] self.heap.s[k]).0 < n,
                self.guard_lo(),
                forall|i: int, a: int| 0 <= i < idx && 0 <= a < self.iterators@[i].rest.len() && (#[trigger] self.iterators@[i].rest[a]) is Ok
                    ==> exists|k: int| 0 <= k < self.heap.s.len() && (#[trigger] self.heap.s[k]).0 == i && le(self.iterators@[i].rest[a]->Ok_0, self.heap.s[k].1),
                forall|v: InternalValue| self.holds(v) <==> old(self).holds(v),/*-*/
        { /*+*/let ghost pre = *self;/*-*/ let it = &mut self.iterators[idx];
            if let Some(item) = it.next_back() {
                let item = item?;
                self.heap.push(HeapItem(idx, item));
                /*+*/proof { lemma_moved_back(pre, *self, idx as int, old(self)); }/*-*/
            }
            /*+*/proof { if pre.iterators@[idx as int].rest.len() == 0 { assert(self.iterators@ =~= pre.iterators@); assert forall|v: InternalValue| self.holds(v) <==> pre.holds(v) by {} } }/*-*/
        }
        self.initialized_hi = true;
        Ok(())
    }
//@ END
//@ FROM src/merge.rs :: impl < I : Iterator < Item = IterItem > > Iterator for Merger < I > :: fn next :: OBL C03.8, C01.21
//@ SUBST `Option < Self :: Item >` ==> `Option<IterItem>`
    fn next(&mut self) -> /*+*/(r:/*-*/ Option<IterItem>/*+*/)
        requires old(self).inv()
        ensures match r {
            Some(Ok(x)) => final(self).inv() && old(self).holds(x)
                && (forall|v: InternalValue| final(self).holds(v) ==> le(x, v))
                && (forall|v: InternalValue| final(self).holds(v) ==> old(self).holds(v))
                && (forall|v: InternalValue| old(self).holds(v) ==> final(self).holds(v) || v == x),
            Some(Err(_)) => true,
            None => final(self).inv() && forall|v: InternalValue| !old(self).holds(v),
        }/*-*/
    {
        if !self.initialized_lo {
            fail_iter!(self.initialize_lo());
        }
        /*+*/let ghost pre = *self;/*-*/

        let min_item = self.heap.pop_min()?;
        /*+*/let ghost k = choose|k: int| 0 <= k < pre.heap.s.len() && #[trigger] pre.heap.s[k] == min_item && self.heap.s == pre.heap.s.remove(k);
        let ghost mid = *self;
        let ghost mut refilled = false;/*-*/

        if let Some(next_item) = self.iterators[min_item.0].next() {
            let next_item = fail_iter!(next_item);
            self.heap.push(HeapItem(min_item.0, next_item));
            /*+*/proof { refilled = true; lemma_pop_front(pre, *self, k, true); }/*-*/
        }
        /*+*/proof { if !refilled { assert(self.iterators@ =~= mid.iterators@); lemma_pop_front(pre, *self, k, false); } }/*-*/

        Some(Ok(min_item.1))
    }
//@ END
//@ FROM src/merge.rs :: impl < I : DoubleEndedIterator < Item = IterItem > > DoubleEndedIterator for Merger < I > :: fn next_back :: OBL C03.8, C01.21
//@ SUBST `Option < Self :: Item >` ==> `Option<IterItem>`
    fn next_back(&mut self) -> /*+*/(r:/*-*/ Option<IterItem>/*+*/)
        requires old(self).inv()
        ensures match r {
            Some(Ok(x)) => final(self).inv() && old(self).holds(x)
                && (forall|v: InternalValue| final(self).holds(v) ==> le(v, x))
                && (forall|v: InternalValue| final(self).holds(v) ==> old(self).holds(v))
                && (forall|v: InternalValue| old(self).holds(v) ==> final(self).holds(v) || v == x),
            Some(Err(_)) => true,
            None => final(self).inv() && forall|v: InternalValue| !old(self).holds(v),
        }/*-*/
    {
        if !self.initialized_hi {
            fail_iter!(self.initialize_hi());
        }
        /*+*/let ghost pre = *self;/*-*/

        let max_item = self.heap.pop_max()?;
        /*+*/let ghost k = choose|k: int| 0 <= k < pre.heap.s.len() && #[trigger] pre.heap.s[k] == max_item && self.heap.s == pre.heap.s.remove(k);
        let ghost mid = *self;
        let ghost mut refilled = false;/*-*/

        if let Some(next_item) = self.iterators[max_item.0].next_back() {
            let next_item = fail_iter!(next_item);
            self.heap.push(HeapItem(max_item.0, next_item));
            /*+*/proof { refilled = true; lemma_pop_back(pre, *self, k, true); }/*-*/
        }
        /*+*/proof { if !refilled { assert(self.iterators@ =~= mid.iterators@); lemma_pop_back(pre, *self, k, false); } }/*-*/

        Some(Ok(max_item.1))
    }
//@ END

//@ FROM src/merge.rs :: impl < I : Iterator < Item = IterItem > > Merger < I > :: fn new :: OBL C03.8
//@ SUBST `iterators . into_iter ( ) . collect :: < Vec < _ > > ( )` ==> `iterators`
    fn new(iterators: Vec<Src>) -> /*+*/(r:/*-*/ Self/*+*/)
        requires forall|i: int| 0 <= i < iterators@.len() ==> sorted(#[trigger] iterators@[i].rest)
        ensures r.inv(), r.iterators == iterators, r.heap.s.len() == 0, !r.initialized_lo, !r.initialized_hi/*-*/
    {
        let heap = Heap::with_capacity(iterators.len());

        let iterators = iterators;

        Self {
            iterators,
            heap,
            initialized_lo: false,
            initialized_hi: false,
        }
    }
//@ END
}

}
fn main() {}
