//@ UNIT multi_writer
use vstd::prelude::*;
use vstd::std_specs::cmp::*;

macro_rules! fail_iter {
    ($e:expr) => {
        match $e {
            Ok(v) => v,
            Err(e) => return Some(Err(e)),
        }
    };
}

verus! {

global size_of usize == 8;

pub type SeqNo = u64;

#[verifier::external_body]
pub struct Key { inner: Vec<u8> }
impl Key { pub uninterp spec fn rank(&self) -> int; }
impl Clone for Key {
    #[verifier::external_body]
    fn clone(&self) -> (r: Self) ensures r.rank() == self.rank() { Key { inner: self.inner.clone() } }
}
impl PartialEq for Key {
    #[verifier::external_body]
    fn eq(&self, other: &Self) -> (r: bool) { self.inner == other.inner }
}
impl PartialEqSpecImpl for Key {
    open spec fn obeys_eq_spec() -> bool { true }
    open spec fn eq_spec(&self, other: &Self) -> bool { self.rank() == other.rank() }
}
impl PartialOrdSpecImpl for Key {
    open spec fn obeys_partial_cmp_spec() -> bool { true }
    open spec fn partial_cmp_spec(&self, other: &Self) -> Option<core::cmp::Ordering> {
        if self.rank() < other.rank() { Some(core::cmp::Ordering::Less) }
        else if self.rank() == other.rank() { Some(core::cmp::Ordering::Equal) }
        else { Some(core::cmp::Ordering::Greater) }
    }
}
impl PartialOrd for Key {
    #[verifier::external_body]
    fn partial_cmp(&self, other: &Self) -> (r: Option<core::cmp::Ordering>) { self.inner.partial_cmp(&other.inner) }
}
pub type UserKey = Key;

#[verifier::external_body]
pub struct UserValue { inner: Vec<u8> }

#[verifier::external_body]
pub struct Error { inner: u8 }

#[derive(Copy, Clone, PartialEq, Eq, Structural)]
pub enum ValueType { Value, Tombstone, WeakTombstone, Indirection }

impl ValueType {
    pub fn is_tombstone(self) -> (r: bool)
        ensures r == (self == ValueType::Tombstone || self == ValueType::WeakTombstone)
    {
        self == Self::Tombstone || self == Self::WeakTombstone
    }
}

pub struct InternalKey { pub user_key: UserKey, pub seqno: SeqNo, pub value_type: ValueType }
impl InternalKey {
    pub fn is_tombstone(&self) -> (r: bool) ensures r == (self.value_type == ValueType::Tombstone || self.value_type == ValueType::WeakTombstone) { self.value_type.is_tombstone() }
}
pub struct InternalValue { pub key: InternalKey, pub value: UserValue }
impl InternalValue {
    pub fn is_tombstone(&self) -> (r: bool) ensures r == (self.key.value_type == ValueType::Tombstone || self.key.value_type == ValueType::WeakTombstone) { self.key.is_tombstone() }
}

#[verifier::external]
impl std::fmt::Debug for InternalValue { fn fmt(&self, f: &mut std::fmt::Formatter<'_>) -> std::fmt::Result { Ok(()) } }
#[verifier::external]
impl std::fmt::Debug for Error { fn fmt(&self, f: &mut std::fmt::Formatter<'_>) -> std::fmt::Result { Ok(()) } }

pub assume_specification<T, E> [std::result::Result::<T, E>::expect_err] (r: std::result::Result<T, E>, msg: &str) -> (e: E)
    where T: std::fmt::Debug,
    requires r is Err,
    ensures e == r->Err_0;


impl Key {
    pub fn as_ref(&self) -> (r: &Key) ensures r == self { self }
    #[verifier::external_body]
    pub fn len(&self) -> (r: usize) ensures r <= 65535 { 0 }
}
impl UserValue {
    #[verifier::external_body]
    pub fn len(&self) -> (r: usize) ensures r <= 0xFFFF_FFFF { 0 }
}

/// prelude: the inner table writer — only what MultiWriter::write touches
pub struct BlockOffset(pub u64);
pub struct WMeta { pub file_pos: BlockOffset }
pub struct Writer { pub meta: WMeta, pub ghost written: Seq<InternalValue> }
impl Writer {
    #[verifier::external_body]
    pub fn write(&mut self, item: InternalValue) -> (r: Result<(), Error>)
        ensures r is Ok ==> final(self).written == old(self).written.push(item), r is Err ==> final(self).written == old(self).written
    { Ok(()) }
}
impl core::ops::Deref for BlockOffset {
    type Target = u64;
    fn deref(&self) -> (r: &u64) ensures *r == self.0 { &self.0 }
}

pub struct MultiWriter {
    pub writer: Writer,
    pub target_size: u64,
    pub current_key: Option<UserKey>,
    pub ghost rotations: int,
    /// where the logical stream was cut into tables: positions in `writer.written`
    pub ghost cuts: Seq<int>,
}

impl MultiWriter {
    #[verifier::external_body]
    fn rotate(&mut self) -> (r: Result<(), Error>)
        ensures final(self).rotations == old(self).rotations + 1, final(self).target_size == old(self).target_size,
            final(self).current_key == old(self).current_key, final(self).writer.written == old(self).writer.written,   // a fresh inner writer continues the same logical stream
            final(self).cuts == old(self).cuts.push(old(self).writer.written.len() as int),   // ... cut after everything written so far
    { Ok(()) }

    // ---- verbatim from /repo/src/table/multi_writer.rs ----
//@ FROM src/table/multi_writer.rs :: impl MultiWriter :: fn write :: OBL C07.2, C09.13
//@ SUBST `crate :: Result < ( ) >` ==> `Result<(), Error>`
    fn write(&mut self, item: InternalValue) -> /*+*/(r:/*-*/ Result<(), Error>/*+*/)
        ensures
            // C07.2: a table is only ever cut in front of a strictly greater user key
            final(self).rotations > old(self).rotations ==> (old(self).current_key is None || old(self).current_key->0.rank() < item.key.user_key.rank()),
            final(self).rotations <= old(self).rotations + 1,
            r is Ok ==> final(self).writer.written == old(self).writer.written.push(item),
            // C09.13: a cut, if any, is placed in front of the item being written - the item is the first entry of the fresh table, so it
            // lies in the table that is current when write returns (blob links registered after write go to the table holding the pointer)
            r is Ok ==> final(self).cuts == old(self).cuts || final(self).cuts == old(self).cuts.push(old(self).writer.written.len() as int),   // @OBL C09.13
        /*-*/
    {
        let is_next_key = self.current_key.as_ref() < Some(&item.key.user_key);

        if is_next_key {
            self.current_key = Some(item.key.user_key.clone());

            if *self.writer.meta.file_pos >= self.target_size {
                self.rotate()?;
            }
        }

        self.writer.write(item)?;

        Ok(())
    }
//@ END
}

} // verus!
fn main() {}
