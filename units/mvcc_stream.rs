//@ UNIT mvcc_stream
use vstd::prelude::*;
use vstd::std_specs::cmp::*;

//@ FROM src/lib.rs :: - :: macro_rules fail_iter
//@ SUBST `e . into ( )` ==> `e`
macro_rules! fail_iter {
    ($e:expr) => {
        match $e {
            Ok(v) => v,
            Err(e) => return Some(Err(e)),
        }
    };
}
//@ END

verus! {

pub type SeqNo = u64;

#[verifier::external_body]
pub struct Key { inner: Vec<u8> }
impl Key { pub uninterp spec fn rank(&self) -> int; }
impl Clone for Key {
    #[verifier::external_body]
    fn clone(&self) -> (r: Self) ensures r.rank() == self.rank() { Key { inner: self.inner.clone() } }
}
impl PartialEq for Key {
    #[verifier::external_body]
    fn eq(&self, other: &Self) -> (r: bool) { self.inner == other.inner }
}
impl PartialEqSpecImpl for Key {
    open spec fn obeys_eq_spec() -> bool { true }
    open spec fn eq_spec(&self, other: &Self) -> bool { self.rank() == other.rank() }
}
impl<'a> PartialEq<&'a Key> for Key {
    #[verifier::external_body]
    fn eq(&self, other: &&'a Key) -> (r: bool) { self.inner == other.inner }
}
impl<'a> PartialEqSpecImpl<&'a Key> for Key {
    open spec fn obeys_eq_spec() -> bool { true }
    open spec fn eq_spec(&self, other: &&'a Key) -> bool { self.rank() == other.rank() }
}
impl PartialOrdSpecImpl for Key {
    open spec fn obeys_partial_cmp_spec() -> bool { true }
    open spec fn partial_cmp_spec(&self, other: &Self) -> Option<core::cmp::Ordering> {
        if self.rank() < other.rank() { Some(core::cmp::Ordering::Less) }
        else if self.rank() == other.rank() { Some(core::cmp::Ordering::Equal) }
        else { Some(core::cmp::Ordering::Greater) }
    }
}
impl PartialOrd for Key {
    #[verifier::external_body]
    fn partial_cmp(&self, other: &Self) -> (r: Option<core::cmp::Ordering>) { self.inner.partial_cmp(&other.inner) }
}
pub type UserKey = Key;

#[verifier::external_body]
pub struct UserValue { inner: Vec<u8> }

#[verifier::external_body]
pub struct Error { inner: u8 }

#[derive(Copy, Clone, PartialEq, Eq, Structural)]
pub enum ValueType { Value, Tombstone, WeakTombstone, Indirection }

impl ValueType {
    pub fn is_tombstone(self) -> (r: bool)
        ensures r == (self == ValueType::Tombstone || self == ValueType::WeakTombstone)
    {
        self == Self::Tombstone || self == Self::WeakTombstone
    }
}

pub struct InternalKey { pub user_key: UserKey, pub seqno: SeqNo, pub value_type: ValueType }
impl InternalKey {
    pub fn is_tombstone(&self) -> (r: bool) ensures r == (self.value_type == ValueType::Tombstone || self.value_type == ValueType::WeakTombstone) { self.value_type.is_tombstone() }
}
pub struct InternalValue { pub key: InternalKey, pub value: UserValue }
impl InternalValue {
    pub fn is_tombstone(&self) -> (r: bool) ensures r == (self.key.value_type == ValueType::Tombstone || self.key.value_type == ValueType::WeakTombstone) { self.key.is_tombstone() }
}

#[verifier::external]
impl std::fmt::Debug for InternalValue { fn fmt(&self, f: &mut std::fmt::Formatter<'_>) -> std::fmt::Result { Ok(()) } }
#[verifier::external]
impl std::fmt::Debug for Error { fn fmt(&self, f: &mut std::fmt::Formatter<'_>) -> std::fmt::Result { Ok(()) } }

pub assume_specification<T, E> [std::result::Result::<T, E>::expect_err] (r: std::result::Result<T, E>, msg: &str) -> (e: E)
    where T: std::fmt::Debug,
    requires r is Err,
    ensures e == r->Err_0;

pub type Item = Result<InternalValue, Error>;


/// stands for crate::double_ended_peekable::DoubleEndedPeekable<Item, I>
#[verifier::external_body]
pub struct DEPeek { v: Vec<Item> }
impl DEPeek {
    pub uninterp spec fn rest(&self) -> Seq<Item>;

    #[verifier::external_body]
    pub fn next(&mut self) -> (r: Option<Item>)
        ensures
            old(self).rest().len() == 0 ==> r is None && final(self).rest() == old(self).rest(),
            old(self).rest().len() > 0 ==> r == Some(old(self).rest()[0]) && final(self).rest() == old(self).rest().skip(1),
    { unimplemented!() }

    #[verifier::external_body]
    pub fn next_back(&mut self) -> (r: Option<Item>)
        ensures
            old(self).rest().len() == 0 ==> r is None && final(self).rest() == old(self).rest(),
            old(self).rest().len() > 0 ==> r == Some(old(self).rest().last()) && final(self).rest() == old(self).rest().drop_last(),
    { unimplemented!() }

    #[verifier::external_body]
    pub fn peek_back(&mut self) -> (r: Option<&Item>)
        ensures
            final(self).rest() == old(self).rest(),
            old(self).rest().len() == 0 ==> r is None,
            old(self).rest().len() > 0 ==> r is Some && *r->0 == old(self).rest().last(),
    { unimplemented!() }

    #[verifier::external_body]
    pub fn next_if<F: FnOnce(&Item) -> bool>(&mut self, func: F) -> (r: Option<Item>)
        requires old(self).rest().len() > 0 ==> call_requires(func, (&old(self).rest()[0],)),
        ensures
            old(self).rest().len() == 0 ==> r is None && final(self).rest() == old(self).rest(),
            old(self).rest().len() > 0 ==> (
                (call_ensures(func, (&old(self).rest()[0],), true) && r == Some(old(self).rest()[0]) && final(self).rest() == old(self).rest().skip(1))
                || (call_ensures(func, (&old(self).rest()[0],), false) && r is None && final(self).rest() == old(self).rest())),
    { unimplemented!() }
}

pub open spec fn krank(it: Item) -> int { it->Ok_0.key.user_key.rank() }

pub open spec fn same_key_prefix(s: Seq<Item>, k: int) -> nat
    decreases s.len()
{
    if s.len() == 0 { 0 } else if s[0] is Ok && krank(s[0]) == k { 1 + same_key_prefix(s.skip(1), k) } else { 0 }
}

pub open spec fn same_key_suffix(s: Seq<Item>, k: int) -> nat
    decreases s.len()
{
    if s.len() == 0 { 0 } else if s.last() is Ok && krank(s.last()) == k { 1 + same_key_suffix(s.drop_last(), k) } else { 0 }
}

pub open spec fn keys_sorted(s: Seq<Item>) -> bool {
    forall|a: int, b: int| 0 <= a < b < s.len() && (#[trigger] s[a]) is Ok && (#[trigger] s[b]) is Ok ==> krank(s[a]) <= krank(s[b])
}

pub proof fn lemma_prefix_bound(s: Seq<Item>, k: int)
    ensures same_key_prefix(s, k) <= s.len()
    decreases s.len()
{ if s.len() > 0 && s[0] is Ok && krank(s[0]) == k { lemma_prefix_bound(s.skip(1), k); } }

pub proof fn lemma_suffix_bound(s: Seq<Item>, k: int)
    ensures same_key_suffix(s, k) <= s.len()
    decreases s.len()
{ if s.len() > 0 && s.last() is Ok && krank(s.last()) == k { lemma_suffix_bound(s.drop_last(), k); } }

pub proof fn lemma_suffix_exact(s: Seq<Item>, k: int, c: int)
    requires 0 <= c <= s.len(),
        forall|j: int| s.len() - c <= j < s.len() ==> (#[trigger] s[j]) is Ok && krank(s[j]) == k,
        c == s.len() || !(s[s.len() - c - 1] is Ok && krank(s[s.len() - c - 1]) == k),
    ensures same_key_suffix(s, k) == c
    decreases c
{
    if c == 0 {
    } else {
        let t = s.drop_last();
        assert forall|j: int| t.len() - (c - 1) <= j < t.len() implies (#[trigger] t[j]) is Ok && krank(t[j]) == k by { assert(t[j] == s[j]); }
        if c - 1 < t.len() { assert(t[t.len() - (c - 1) - 1] == s[s.len() - c - 1]); }
        lemma_suffix_exact(t, k, c - 1);
    }
}

pub struct MvccStream { pub inner: DEPeek }

impl MvccStream {
    // Drains all entries for the given user key from the front of the iterator.
//@ FROM src/mvcc_stream.rs :: > MvccStream < I > :: fn drain_key_min :: OBL C03.6
//@ SUBST `crate :: Result < ( ) >` ==> `Result<(), Error>`
    fn drain_key_min(&mut self, key: &UserKey) -> /*+*/(r:/*-*/ Result<(), Error>/*+*/)
        ensures
            ({
                let s = old(self).inner.rest();
                let n = same_key_prefix(s, key.rank()) as int;
                if n < s.len() && s[n] is Err {
                    r is Err && r->Err_0 == s[n]->Err_0 && final(self).inner.rest() == s.skip(n + 1)
                } else {
                    r is Ok && final(self).inner.rest() == s.skip(n)
                }
            }),/*-*/
    {
        /*+*/let ghost s0 = self.inner.rest();
        let ghost mut c: int = 0;
        proof { assert(s0.skip(0) =~= s0); }/*-*/
        loop
            /*+*/invariant
                0 <= c <= s0.len(), self.inner.rest() == s0.skip(c), s0 == old(self).inner.rest(),
                same_key_prefix(s0, key.rank()) == c + same_key_prefix(s0.skip(c), key.rank()),
            decreases self.inner.rest().len()/*-*/
        {
            /*+*/proof {
                if c < s0.len() { assert(s0.skip(c).skip(1) =~= s0.skip(c + 1)); assert(s0.skip(c)[0] == s0[c]); }
            }/*-*/
            let Some(next) = self.inner.next_if(|kv/*+*/: &Item/*-*/| /*+*/-> (b: bool) ensures b == (match kv { Ok(kv) => kv.key.user_key.rank() == key.rank(), Err(_) => true })/*-*/ {
                if let Ok(kv) = kv {
                    kv.key.user_key == key
                } else {
                    true
                }
            }) else {
                return Ok(());
            };
            /*+*/proof { c = c + 1; }/*-*/

            next?;
        }
    }
//@ END

//@ FROM src/mvcc_stream.rs :: Iterator for MvccStream < I > :: fn next :: OBL C03.6
//@ SUBST `Self :: Item` ==> `Item`
    fn next(&mut self) -> /*+*/(r:/*-*/ Option<Item>/*+*/)
        ensures
            ({
                let s = old(self).inner.rest();
                if s.len() == 0 { r is None && final(self).inner.rest() == s }
                else if s[0] is Err { r == Some(s[0]) && final(self).inner.rest() == s.skip(1) }
                else {
                    let n = same_key_prefix(s.skip(1), krank(s[0])) as int;
                    if 1 + n < s.len() && s[1 + n] is Err { r is Some && r->0 is Err && r->0->Err_0 == s[1 + n]->Err_0 && final(self).inner.rest() == s.skip(n + 2) }
                    else { r == Some(s[0]) && final(self).inner.rest() == s.skip(n + 1) }
                }
            }),/*-*/
    {
        /*+*/let ghost s = self.inner.rest();/*-*/
        let head = fail_iter!(self.inner.next()?);
        /*+*/proof {
            let n = same_key_prefix(s.skip(1), krank(s[0])) as int;
            lemma_prefix_bound(s.skip(1), krank(s[0]));
            assert(s.skip(1).skip(n) =~= s.skip(n + 1));
            if n < s.skip(1).len() { assert(s.skip(1).skip(n + 1) =~= s.skip(n + 2)); assert(s.skip(1)[n] == s[1 + n]); }
        }/*-*/

        // As long as items are the same key, ignore them
        fail_iter!(self.drain_key_min(&head.key.user_key));

        Some(Ok(head))
    }
//@ END

//@ FROM src/mvcc_stream.rs :: DoubleEndedIterator for MvccStream < I > :: fn next_back :: OBL C03.6
//@ SUBST `Self :: Item` ==> `Item`
    fn next_back(&mut self) -> /*+*/(r:/*-*/ Option<Item>/*+*/)
        requires keys_sorted(old(self).inner.rest()),
        ensures
            ({
                let s = old(self).inner.rest();
                if s.len() == 0 { r is None && final(self).inner.rest() == s }
                else if s.last() is Err { r == Some(s.last()) && final(self).inner.rest() == s.drop_last() }
                else {
                    let m = same_key_suffix(s, krank(s.last())) as int;
                    if m < s.len() && s[s.len() - m - 1] is Err { r == Some(s[s.len() - m - 1]) && final(self).inner.rest() == s.take(s.len() - m - 1) }
                    else { r == Some(s[s.len() - m]) && final(self).inner.rest() == s.take(s.len() - m) }
                }
            }),/*-*/
    {
        /*+*/let ghost s = self.inner.rest();
        let ghost mut c: int = 0;   // number of entries taken from the back so far
        proof { assert(s.take(s.len() as int) =~= s); }/*-*/
        loop
            /*+*/invariant
                0 <= c <= s.len(), self.inner.rest() == s.take(s.len() - c), s == old(self).inner.rest(), keys_sorted(s),
                c > 0 ==> s.last() is Ok && c < s.len() && s[s.len() - c - 1] is Ok && krank(s[s.len() - c - 1]) == krank(s.last())
                    && (forall|j: int| s.len() - c <= j < s.len() ==> (#[trigger] s[j]) is Ok && krank(s[j]) == krank(s.last())),
            decreases self.inner.rest().len()/*-*/
        {
            /*+*/proof {
                if c < s.len() { assert(s.take(s.len() - c).drop_last() =~= s.take(s.len() - c - 1)); assert(s.take(s.len() - c).last() == s[s.len() - c - 1]); }
            }/*-*/
            let tail = fail_iter!(self.inner.next_back()?);
            /*+*/proof {
                c = c + 1;
                assert(tail == s[s.len() - c]->Ok_0);
                assert forall|j: int| s.len() - c <= j < s.len() implies (#[trigger] s[j]) is Ok && krank(s[j]) == krank(s.last()) by { }
                if c < s.len() { assert(s.take(s.len() - c).last() == s[s.len() - c - 1]); assert(s.take(s.len() - c).drop_last() =~= s.take(s.len() - c - 1)); }
            }/*-*/

            let prev = match self.inner.peek_back() {
                Some(Ok(prev)) => prev,
                Some(Err(_)) => {
                    /*+*/proof { lemma_suffix_exact(s, krank(s.last()), c); }/*-*/
                    return Some(Err(self
                        .inner
                        .next_back()
                        .expect("should exist")
                        .expect_err("should be error")));
                }
                None => {
                    /*+*/proof { lemma_suffix_exact(s, krank(s.last()), c); }/*-*/
                    return Some(Ok(tail));
                }
            };

            if prev.key.user_key < tail.key.user_key {
                /*+*/proof { lemma_suffix_exact(s, krank(s.last()), c); }/*-*/
                return Some(Ok(tail));
            }
            /*+*/proof {
                // sorted: prev.key <= tail.key, and not <, so equal
                assert(krank(s[s.len() - c - 1]) <= krank(s[s.len() - c]));
            }/*-*/
        }
    }
//@ END
}

} // verus!
fn main() {}
