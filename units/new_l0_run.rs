#![feature(allocator_api)]
//@ UNIT new_l0_run
// Version::with_new_l0_run, level part (src/version/mod.rs): a flushed / ingested run goes to the *top* of L0 - in front of
// every older run, which is what makes the newest write win a point read (C01) and an ingestion override older data (C14) -
// and levels 1.. are carried over unchanged.  Obligations C01.15, C14.8
use vstd::prelude::*;
use std::sync::Arc;
verus! {

global size_of usize == 8;

#[verifier::external_body] struct Table { p: u8 }
/// Run<Table>: a non-empty sequence of tables (ghost view)
struct Run { ghost t: Seq<Table> }
impl Run {
    /// Run::new (unit optimize_runs / from_recovery): None iff empty
    #[verifier::external_body]
    fn new(items: Vec<Table>) -> (r: Option<Run>) ensures items@.len() == 0 ==> r is None, items@.len() > 0 ==> r is Some && r->Some_0.t == items@ { unimplemented!() }
}
/// `run.to_vec()`
#[verifier::external_body] fn to_vec(run: &[Table]) -> (r: Vec<Table>) ensures r@ == run@ { unimplemented!() }
struct GenericLevel { runs: Vec<Arc<Run>> }
struct Level(Arc<GenericLevel>);
impl Clone for Level { #[verifier::external_body] fn clone(&self) -> (r: Self) ensures r == *self { unimplemented!() } }
impl Level {
    /// Level::from_runs(runs.into_iter().map(Arc::new).collect())
    #[verifier::external_body]
    fn from_owned_runs(runs: Vec<Run>) -> (r: Level) ensures runs_of(r) == runs@ { unimplemented!() }
}
spec fn runs_of(l: Level) -> Seq<Run> { Seq::new(l.0.runs@.len(), |i: int| *l.0.runs@[i]) }
/// `l0.runs.iter().map(|run| run.deref().clone()).collect::<Vec<_>>()`
#[verifier::external_body] fn clone_runs(l: &Level) -> (r: Vec<Run>) ensures r@ == runs_of(*l) { unimplemented!() }
/// Vec::extend with a Vec
#[verifier::external_body] fn vec_extend(v: &mut Vec<Run>, more: Vec<Run>) ensures final(v)@ == old(v)@ + more@ { unimplemented!() }
/// `levels.extend(self.levels.iter().skip(1).cloned())`
#[verifier::external_body] fn extend_skip1(levels: &mut Vec<Level>, src: &Vec<Level>) ensures final(levels)@ == old(levels)@ + src@.skip(1) { unimplemented!() }
/// optimize_runs (unit optimize_runs, C01.4 / C07.1): a function of the run list in read order (newest first); it re-groups tables into
/// disjoint runs and never lets a table overtake one it overlaps with
uninterp spec fn optimized(runs: Seq<Run>) -> Seq<Run>;
#[verifier::external_body] fn optimize_runs(runs: Vec<Run>) -> (r: Vec<Run>) ensures r@ == optimized(runs@) { unimplemented!() }

struct Version { levels: Vec<Level> }

//@ WRAPPER_BEGIN
impl Version {
    /// wrapper (generated) around the statements of Version::with_new_l0_run that build the level list
    fn new_l0_levels(&self, run: &[Table]) -> (levels: Vec<Level>)
        requires self.levels@.len() > 0
        ensures levels@.len() == self.levels@.len(),
            // the new run is first in the list handed to optimize_runs, i.e. newest in read order; an empty flush adds no run
            runs_of(levels@[0]) == optimized(if run@.len() > 0 { seq![Run { t: run@ }] + runs_of(self.levels@[0]) } else { runs_of(self.levels@[0]) }),
            // L1.. unchanged
            forall|i: int| 1 <= i < self.levels@.len() ==> levels@[i] == self.levels@[i],
    {
//@ FROM src/version/mod.rs :: impl Version :: fn with_new_l0_run :: STMTS `let mut levels = vec ! [ ] ;` .. `<let value_log =` :: OBL C01.15, C14.8
//@ SUBST `vec ! [ ]` ==> `Vec::new()`
//@ SUBST `l0 . runs . iter ( ) . map ( $1 ) . collect :: < Vec < _ > > ( )` ==> `clone_runs(l0)`
//@ SUBST `Vec :: with_capacity ( prev_runs . len ( ) + 1 )` ==> `Vec::new()`
//@ SUBST `run . to_vec ( )` ==> `to_vec(run)`
//@ SUBST `runs . extend ( prev_runs )` ==> `vec_extend(&mut runs, prev_runs)`
//@ SUBST `Level :: from_runs ( runs . into_iter ( ) . map ( Arc :: new ) . collect ( ) )` ==> `Level::from_owned_runs(runs)`
//@ SUBST `levels . extend ( self . levels . iter ( ) . skip ( 1 ) . cloned ( ) )` ==> `extend_skip1(&mut levels, &self.levels)`
        let mut levels/*+*/: Vec<Level>/*-*/ = Vec::new();

        // L0
        levels.push({
            // Copy-on-write the first level with new run at top

            let l0 = self.levels.first().expect("L0 should always exist");

            let prev_runs = clone_runs(l0);

            let mut runs/*+*/: Vec<Run>/*-*/ = Vec::new();

            if let Some(run) = Run::new(to_vec(run)) {
                runs.push(run);
            }

            vec_extend(&mut runs, prev_runs);
            /*+*/proof { assert(runs@ =~= if run@.len() > 0 { seq![Run { t: run@ }] + runs_of(self.levels@[0]) } else { runs_of(self.levels@[0]) }); }/*-*/

            let runs = optimize_runs(runs);

            Level::from_owned_runs(runs)
        });

        // L1+
        extend_skip1(&mut levels, &self.levels);
        /*+*/levels/*-*/
//@ END
    }
}
//@ WRAPPER_END

}
fn main() {}
