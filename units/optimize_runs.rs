//@ UNIT optimize_runs
// version::optimize::optimize_runs and Run::{new, push}: re-packing the runs of a level keeps every table, keeps each run
// internally disjoint, and keeps a table *behind* every run that holds an overlapping table that preceded it.
// Obligations C01.4, C07.1
use vstd::prelude::*;
verus! {

global size_of usize == 8;

// ---------------- prelude ----------------
/// a table as optimize_runs sees it: identity + key range (R8: `T: Clone + Ranged` monomorphised)
struct Tbl { id: u64, lo: int, hi: int }
spec fn overlap(a: Tbl, b: Tbl) -> bool { a.hi >= b.lo && a.lo <= b.hi }
struct KeyRange { lo: Ghost<int>, hi: Ghost<int> }
impl KeyRange {
    /// contract of KeyRange::overlaps_with_key_range / KeyRange::min as proved in unit `ranges` (C03.2)
    #[verifier::external_body]
    fn overlaps_with_key_range(&self, other: &KeyRange) -> (r: bool) ensures r == (self.hi@ >= other.lo@ && self.lo@ <= other.hi@) { unimplemented!() }
}
impl Tbl {
    #[verifier::external_body]
    fn key_range(&self) -> (r: &KeyRange) ensures r.lo@ == self.lo, r.hi@ == self.hi { unimplemented!() }
}
impl Copy for Tbl {}
impl Clone for Tbl { #[verifier::external_body] fn clone(&self) -> (r: Self) ensures r == *self { unimplemented!() } }

/// `b` is a rearrangement of `a`
spec fn permutes(a: Seq<Tbl>, b: Seq<Tbl>) -> bool {
    a.len() == b.len() && exists|perm: Seq<int>| #![trigger perm.len()] perm.len() == a.len()
        && (forall|i: int| 0 <= i < perm.len() ==> 0 <= #[trigger] perm[i] < a.len())
        && (forall|i: int, j: int| 0 <= i < j < perm.len() ==> #[trigger] perm[i] != #[trigger] perm[j])
        && (forall|i: int| 0 <= i < perm.len() ==> b[i] == a[#[trigger] perm[i]])
}
/// stands for `self.0.sort_by(|a, b| a.key_range().min().cmp(b.key_range().min()))` (TRUSTED std contract: a rearrangement;
/// the resulting order is not needed by these obligations)
#[verifier::external_body]
fn sort_by_min(v: &mut Vec<Tbl>) ensures permutes(old(v)@, final(v)@) { unimplemented!() }
/// stands for `v.iter().rposition(pred)`
#[verifier::external_body]
fn rposition<P: FnMut(&Run) -> bool>(v: &Vec<Run>, pred: P) -> (r: Option<usize>)
    requires forall|i: int| 0 <= i < v@.len() ==> call_requires(pred, (&#[trigger] v@[i],)),
    ensures match r {
        Some(p) => p < v@.len() && call_ensures(pred, (&v@[p as int],), true) && (forall|j: int| p < j < v@.len() ==> call_ensures(pred, (&#[trigger] v@[j],), false)),
        None => forall|j: int| 0 <= j < v@.len() ==> call_ensures(pred, (&#[trigger] v@[j],), false),
    }
{ unimplemented!() }
/// stands for `v.iter().position(pred)`
#[verifier::external_body]
fn position<P: FnMut(&Run) -> bool>(v: &Vec<Run>, pred: P) -> (r: Option<usize>)
    requires forall|i: int| 0 <= i < v@.len() ==> call_requires(pred, (&#[trigger] v@[i],)),
    ensures match r {
        Some(p) => p < v@.len() && call_ensures(pred, (&v@[p as int],), true) && (forall|j: int| 0 <= j < p ==> call_ensures(pred, (&#[trigger] v@[j],), false)),
        None => forall|j: int| 0 <= j < v@.len() ==> call_ensures(pred, (&#[trigger] v@[j],), false),
    }
{ unimplemented!() }
/// stands for `run.iter().any(pred)`
#[verifier::external_body]
fn any_in<P: FnMut(&Tbl) -> bool>(run: &Run, pred: P) -> (r: bool)
    requires forall|i: int| 0 <= i < run.0@.len() ==> call_requires(pred, (&#[trigger] run.0@[i],)),
    ensures r ==> exists|i: int| 0 <= i < run.0@.len() && call_ensures(pred, (&#[trigger] run.0@[i],), true),
        !r ==> forall|i: int| 0 <= i < run.0@.len() ==> call_ensures(pred, (&#[trigger] run.0@[i],), false),
{ unimplemented!() }

//@ SUBST `< T : Clone + Ranged >` ==> ``
//@ SUBST `< T : Ranged >` ==> ``
//@ SUBST `Run < T >` ==> `Run`
//@ SUBST `Vec < T >` ==> `Vec<Tbl>`
//@ SUBST `item : T` ==> `item: Tbl`

//@ FROM src/version/run.rs :: - :: struct Run
struct Run(Vec<Tbl>);
//@ END

spec fn run_disjoint(r: Seq<Tbl>) -> bool { forall|i: int, j: int| 0 <= i < j < r.len() ==> !overlap(#[trigger] r[i], #[trigger] r[j]) }
spec fn run_overlaps(r: Seq<Tbl>, t: Tbl) -> bool { exists|i: int| 0 <= i < r.len() && overlap(t, #[trigger] r[i]) }

impl Run {
//@ FROM src/version/run.rs :: impl < T : Ranged > Run < T > :: fn new :: OBL C07.1
    fn new(items: Vec<Tbl>) -> /*+*/(r: /*-*/Option<Self>/*+*/)
        ensures items@.len() == 0 ==> r is None, items@.len() > 0 ==> r is Some && (r->0).0@ == items@/*-*/
    {
        if items.is_empty() {
            None
        } else {
            Some(Self(items))
        }
    }
//@ END

//@ FROM src/version/run.rs :: impl < T : Ranged > Run < T > :: fn push :: OBL C07.1
//@ SUBST `self . 0 . sort_by ( | a , b | a . key_range ( ) . min ( ) . cmp ( b . key_range ( ) . min ( ) ) ) ;` ==> `sort_by_min(&mut self.0);`
    fn push(&mut self, item: Tbl)
        /*+*/ensures permutes(old(self).0@.push(item), final(self).0@)/*-*/
    {
        self.0.push(item);

        sort_by_min(&mut self.0);
    }
//@ END
}

// ---------------- specification ----------------
spec fn has(r: Seq<Tbl>, t: Tbl) -> bool { exists|k: int| 0 <= k < r.len() && #[trigger] r[k] == t }
/// all tables of the input in consultation order: runs in order, tables of a run in order
spec fn flat(runs: Seq<Run>) -> Seq<Tbl>
    decreases runs.len()
{ if runs.len() == 0 { Seq::empty() } else { flat(runs.drop_last()) + runs.last().0@ } }
spec fn total(runs: Seq<Run>) -> int
    decreases runs.len()
{ if runs.len() == 0 { 0 } else { total(runs.drop_last()) + runs.last().0@.len() } }
/// `pos[p]` is the output run that holds input table `p`; an earlier overlapping table always sits in an earlier run
spec fn placed(ts: Seq<Tbl>, out: Seq<Run>, pos: Seq<int>) -> bool {
    &&& pos.len() == ts.len()
    &&& forall|p: int| 0 <= p < ts.len() ==> 0 <= #[trigger] pos[p] < out.len() && has(out[pos[p]].0@, ts[p])
    &&& forall|p: int, q: int| 0 <= p < q < ts.len() && overlap(ts[p], ts[q]) ==> #[trigger] pos[p] < #[trigger] pos[q]
}
spec fn all_disjoint(runs: Seq<Run>) -> bool { forall|r: int| 0 <= r < runs.len() ==> run_disjoint(#[trigger] runs[r].0@) }

proof fn lemma_permutes_has(a: Seq<Tbl>, b: Seq<Tbl>, t: Tbl)
    requires permutes(a, b), has(a, t),
    ensures has(b, t),
{
    let perm = choose|perm: Seq<int>| #![trigger perm.len()] perm.len() == a.len()
        && (forall|i: int| 0 <= i < perm.len() ==> 0 <= #[trigger] perm[i] < a.len())
        && (forall|i: int, j: int| 0 <= i < j < perm.len() ==> #[trigger] perm[i] != #[trigger] perm[j])
        && (forall|i: int| 0 <= i < perm.len() ==> b[i] == a[#[trigger] perm[i]]);
    let k = choose|k: int| 0 <= k < a.len() && #[trigger] a[k] == t;
    // an injective map of a finite set into itself is onto
    lemma_injective_onto(perm, k);
    let i = choose|i: int| 0 <= i < perm.len() && perm[i] == k;
    assert(b[i] == t);
}
/// pigeonhole: an injective sequence of n values in [0, n) hits every value
proof fn lemma_injective_onto(perm: Seq<int>, k: int)
    requires 0 <= k < perm.len(),
        forall|i: int| 0 <= i < perm.len() ==> 0 <= #[trigger] perm[i] < perm.len(),
        forall|i: int, j: int| 0 <= i < j < perm.len() ==> #[trigger] perm[i] != #[trigger] perm[j],
    ensures exists|i: int| 0 <= i < perm.len() && perm[i] == k,
    decreases perm.len()
{
    let n = perm.len() as int;
    if exists|i: int| 0 <= i < n && perm[i] == k { return; }
    // otherwise all n values lie in [0,n) \ {k}: remove the position holding n-1 (or the last position) and recurse
    if n == 1 { assert(perm[0] == 0); assert(false); }
    // relabel: values > k shift down by one, giving an injective sequence of n values in [0, n-1) - impossible; prove by
    // dropping the last element and relabelling the value n-1 (if present) to the dropped element's value
    let last = perm[n - 1];
    let shorter = Seq::new((n - 1) as nat, |i: int| if perm[i] == n - 1 { last } else { perm[i] });
    assert forall|i: int| 0 <= i < shorter.len() implies 0 <= #[trigger] shorter[i] < shorter.len() by {
        if perm[i] == n - 1 { assert(last != n - 1) by { assert(perm[i] != perm[n - 1]); } }
    }
    assert forall|i: int, j: int| 0 <= i < j < shorter.len() implies #[trigger] shorter[i] != #[trigger] shorter[j] by {
        assert(perm[i] != perm[j]); assert(perm[i] != perm[n - 1]); assert(perm[j] != perm[n - 1]);
    }
    if k == n - 1 {
        // no element of perm equals n-1 = k, so perm maps n positions injectively into [0, n-1): drop last, still missing nothing to recurse on
        // every value of `shorter` equals the corresponding perm value (no relabelling happened)
        assert forall|i: int| 0 <= i < shorter.len() implies shorter[i] == perm[i] by { }
        // then `shorter` is a permutation of [0, n-1) and perm[n-1] in [0, n-1) must collide with one of them
        lemma_injective_onto(shorter, last);
        let i = choose|i: int| 0 <= i < shorter.len() && shorter[i] == last;
        assert(perm[i] == perm[n - 1]);
        assert(false);
    } else {
        let kk = k;
        lemma_injective_onto(shorter, kk);
        let i = choose|i: int| 0 <= i < shorter.len() && shorter[i] == kk;
        if perm[i] == n - 1 { assert(last == k); assert(perm[n - 1] == k); assert(false); } else { assert(perm[i] == k); assert(false); }
    }
}
proof fn lemma_permutes_disjoint(a: Seq<Tbl>, b: Seq<Tbl>)
    requires permutes(a, b), run_disjoint(a),
    ensures run_disjoint(b),
{
    let perm = choose|perm: Seq<int>| #![trigger perm.len()] perm.len() == a.len()
        && (forall|i: int| 0 <= i < perm.len() ==> 0 <= #[trigger] perm[i] < a.len())
        && (forall|i: int, j: int| 0 <= i < j < perm.len() ==> #[trigger] perm[i] != #[trigger] perm[j])
        && (forall|i: int| 0 <= i < perm.len() ==> b[i] == a[#[trigger] perm[i]]);
    assert forall|i: int, j: int| 0 <= i < j < b.len() implies !overlap(#[trigger] b[i], #[trigger] b[j]) by {
        let (x, y) = (perm[i], perm[j]);
        assert(x != y);
        if x < y { assert(!overlap(a[x], a[y])); } else { assert(!overlap(a[y], a[x])); }
    }
}

//@ FROM src/version/optimize.rs :: - :: fn optimize_runs :: OBL C01.4, C07.1
//@ SUBST `for run in & runs` ==> `for run in runs.iter()`
//@ SUBST `in run . iter ( )` ==> `in run.0.iter()`
//@ SUBST `new_runs . iter ( ) . rposition (` ==> `rposition(&new_runs,`
//@ SUBST `new_runs . iter ( ) . position (` ==> `position(&new_runs,`
//@ SUBST `existing_run . iter ( ) . any (` ==> `any_in(existing_run,`
//@ SUBST `Vec < Run >` ==> `Vec<Run>`
fn optimize_runs(runs: Vec<Run>) -> /*+*/(out: /*-*/Vec<Run>/*+*/)
    requires all_disjoint(runs@), flat(runs@).len() < usize::MAX,   // fewer than 2^64 tables in a level
    ensures
        // C07.1: every run of the result is internally disjoint (no two of its tables overlap)
        all_disjoint(out@),   // @OBL C07.1
        // C01.4: every table is kept exactly once, and a table always ends up in a later run than every earlier table it overlaps
        // (so a point read that walks the runs in order still meets the newer version of a key first)
        total(out@) == flat(runs@).len(),   // @OBL C01.4
        exists|pos: Seq<int>| placed(flat(runs@), out@, pos),   // @OBL C01.4
/*-*/
{
    if runs.len() <= 1 {
        /*+*/proof { lemma_single(runs@); }/*-*/
        runs
    } else {
        let mut new_runs: Vec<Run> = Vec::new();
        /*+*/let ghost mut done: Seq<Tbl> = Seq::empty();
        let ghost mut pos: Seq<int> = Seq::empty();
        proof { assert(runs@.take(0) =~= Seq::<Run>::empty()); }/*-*/

        for run in /*+*/it: /*-*/runs.iter()
            /*+*/invariant
                it.seq().len() == runs@.len(), forall|k: int| 0 <= k < runs@.len() ==> *(#[trigger] it.seq()[k]) == runs@[k],
                all_disjoint(new_runs@), placed(done, new_runs@, pos), total(new_runs@) == done.len(), all_nonempty(new_runs@),
                flat(runs@).len() < usize::MAX,
                done == flat(runs@.take(it.index@ as int)),/*-*/
        {
            /*+*/let ghost i = it.index@ as int;
            let ghost base = done;
            proof { assert(*run == runs@[i]); assert(run.0@.take(0) =~= Seq::<Tbl>::empty()); assert(base + Seq::<Tbl>::empty() =~= base); }/*-*/
            for table in /*+*/it2: /*-*/run.0.iter()
                /*+*/invariant
                    it2.seq().len() == run.0@.len(), forall|k: int| 0 <= k < run.0@.len() ==> *(#[trigger] it2.seq()[k]) == run.0@[k],
                    all_disjoint(new_runs@), placed(done, new_runs@, pos), total(new_runs@) == done.len(), all_nonempty(new_runs@),
                    flat(runs@).len() < usize::MAX, 0 <= i < runs@.len(), *run == runs@[i], base == flat(runs@.take(i)),
                    done == base + run.0@.take(it2.index@ as int),/*-*/
            {
                /*+*/let ghost j = it2.index@ as int;
                let ghost t = *table;
                let ghost old_runs = new_runs@;
                proof { assert(t == run.0@[j]); }/*-*/
                let last_overlap = rposition(&new_runs, |existing_run/*+*/: &Run/*-*/| /*+*/-> (b: bool) ensures b == run_overlaps(existing_run.0@, *table)/*-*/ {
                    any_in(existing_run, |x/*+*/: &Tbl/*-*/| /*+*/-> (c: bool) ensures c == overlap(*table, *x) {/*-*/ table.key_range().overlaps_with_key_range(x.key_range()) /*+*/}/*-*/)
                });

                /*+*/let ghost tgt: int = match last_overlap { Some(idx) => idx as int + 1, None => 0 };
                proof {
                    assert(last_overlap matches Some(idx) ==> idx < new_runs@.len());
                    lemma_total_ge_len(new_runs@);
                    lemma_flat_prefix(runs@, i, j);
                    lemma_target_clear(done, old_runs, pos, t, tgt);
                }/*-*/
                let target = match last_overlap {
                    Some(idx) => new_runs.get_mut(idx + 1),
                    None => new_runs.first_mut(),
                };

                if let Some(target) = target {
                    /*+*/let ghost before = target.0@;/*-*/
                    target.push(table.clone());
                    /*+*/proof {
                        assert(before == old_runs[tgt].0@);
                        lemma_place_existing(done, old_runs, new_runs@, pos, t, tgt);
                        done = done.push(t); pos = pos.push(tgt);
                    }/*-*/
                } else {
                    new_runs.push(Run::new(vec![table.clone()]).expect("run should not be empty"));
                    /*+*/proof {
                        lemma_place_new(done, old_runs, new_runs@, pos, t);
                        done = done.push(t); pos = pos.push(old_runs.len() as int);
                    }/*-*/
                }
                /*+*/proof { assert(run.0@.take(j + 1) =~= run.0@.take(j).push(t)); assert(base + run.0@.take(j + 1) =~= (base + run.0@.take(j)).push(t)); }/*-*/
            }
            /*+*/proof {
                assert(run.0@.take(run.0@.len() as int) =~= run.0@);
                assert(runs@.take(i + 1).drop_last() =~= runs@.take(i));
                assert(runs@.take(i + 1).last() == runs@[i]);
            }/*-*/
        }
        /*+*/proof { assert(runs@.take(runs@.len() as int) =~= runs@); }/*-*/

        new_runs
    }
}
//@ END

spec fn all_nonempty(runs: Seq<Run>) -> bool { forall|r: int| 0 <= r < runs.len() ==> (#[trigger] runs[r]).0@.len() >= 1 }
proof fn lemma_total_ge_len(runs: Seq<Run>)
    requires all_nonempty(runs),
    ensures total(runs) >= runs.len(),
    decreases runs.len()
{ if runs.len() > 0 { assert(runs.last() == runs[runs.len() - 1]); lemma_total_ge_len(runs.drop_last()); } }
proof fn lemma_flat_len(runs: Seq<Run>, i: int)
    requires 0 <= i <= runs.len(),
    ensures flat(runs.take(i)).len() <= flat(runs).len(), i < runs.len() ==> flat(runs.take(i)).len() + runs[i].0@.len() <= flat(runs).len(),
    decreases runs.len() - i
{
    if i == runs.len() { assert(runs.take(i) =~= runs); }
    else {
        lemma_flat_len(runs, i + 1);
        assert(runs.take(i + 1).drop_last() =~= runs.take(i));
        assert(runs.take(i + 1).last() == runs[i]);
    }
}
proof fn lemma_flat_prefix(runs: Seq<Run>, i: int, j: int)
    requires 0 <= i < runs.len(), 0 <= j < runs[i].0@.len(),
    ensures flat(runs.take(i)).len() + j < flat(runs).len(),
{ lemma_flat_len(runs, i); }
/// 0 or 1 runs: nothing moves
proof fn lemma_single(runs: Seq<Run>)
    requires runs.len() <= 1, all_disjoint(runs),
    ensures total(runs) == flat(runs).len(), exists|pos: Seq<int>| placed(flat(runs), runs, pos),
{
    if runs.len() == 0 {
        assert(placed(flat(runs), runs, Seq::<int>::empty()));
    } else {
        assert(runs.drop_last() =~= Seq::<Run>::empty());
        assert(flat(Seq::<Run>::empty()) =~= Seq::<Tbl>::empty());
        assert(total(Seq::<Run>::empty()) == 0);
        assert(runs.last() == runs[0]);
        assert(flat(runs) =~= runs[0].0@);
        assert(total(runs) == runs[0].0@.len());
        let pos = Seq::new(runs[0].0@.len(), |p: int| 0int);
        assert forall|p: int| 0 <= p < flat(runs).len() implies 0 <= #[trigger] pos[p] < runs.len() && has(runs[pos[p]].0@, flat(runs)[p]) by { assert(runs[0].0@[p] == flat(runs)[p]); }
        assert(run_disjoint(runs[0].0@));
        assert(placed(flat(runs), runs, pos));
    }
}
/// the run chosen for `t` (the one after the last run that overlaps it, or the first run) holds nothing that overlaps `t`,
/// and every earlier table that overlaps `t` sits in an earlier run
proof fn lemma_target_clear(done: Seq<Tbl>, runs: Seq<Run>, pos: Seq<int>, t: Tbl, tgt: int)
    requires placed(done, runs, pos), 0 <= tgt <= runs.len(),
        tgt > 0 ==> run_overlaps(runs[tgt - 1].0@, t),
        forall|r: int| tgt <= r < runs.len() ==> !run_overlaps(#[trigger] runs[r].0@, t),
    ensures
        tgt < runs.len() ==> forall|k: int| 0 <= k < runs[tgt].0@.len() ==> !overlap(t, #[trigger] runs[tgt].0@[k]),
        forall|p: int| 0 <= p < done.len() && overlap(done[p], t) ==> #[trigger] pos[p] < tgt,
{
    assert forall|p: int| 0 <= p < done.len() && overlap(done[p], t) implies #[trigger] pos[p] < tgt by {
        let r = pos[p];
        let k = choose|k: int| 0 <= k < runs[r].0@.len() && #[trigger] runs[r].0@[k] == done[p];
        assert(overlap(t, runs[r].0@[k]));
        assert(run_overlaps(runs[r].0@, t));
    }
}
proof fn lemma_total_update(runs: Seq<Run>, new: Seq<Run>, tgt: int)
    requires 0 <= tgt < runs.len(), new.len() == runs.len(), forall|r: int| 0 <= r < runs.len() && r != tgt ==> #[trigger] new[r] == runs[r],
        new[tgt].0@.len() == runs[tgt].0@.len() + 1,
    ensures total(new) == total(runs) + 1,
    decreases runs.len()
{
    if tgt == runs.len() - 1 {
        assert(new.drop_last() =~= runs.drop_last());
    } else {
        lemma_total_update(runs.drop_last(), new.drop_last(), tgt);
    }
}
proof fn lemma_place_existing(done: Seq<Tbl>, runs: Seq<Run>, new: Seq<Run>, pos: Seq<int>, t: Tbl, tgt: int)
    requires placed(done, runs, pos), all_disjoint(runs), 0 <= tgt < runs.len(), new.len() == runs.len(),
        forall|r: int| 0 <= r < runs.len() && r != tgt ==> #[trigger] new[r] == runs[r],
        permutes(runs[tgt].0@.push(t), new[tgt].0@),
        forall|k: int| 0 <= k < runs[tgt].0@.len() ==> !overlap(t, #[trigger] runs[tgt].0@[k]),
        forall|p: int| 0 <= p < done.len() && overlap(done[p], t) ==> #[trigger] pos[p] < tgt,
        total(runs) == done.len(),
    ensures placed(done.push(t), new, pos.push(tgt)), all_disjoint(new), total(new) == done.len() + 1, all_nonempty(runs) ==> all_nonempty(new),
{
    let a = runs[tgt].0@.push(t);
    if all_nonempty(runs) { assert forall|r: int| 0 <= r < new.len() implies (#[trigger] new[r]).0@.len() >= 1 by { if r != tgt { assert(new[r] == runs[r]); } } }
    assert(run_disjoint(a)) by {
        assert(run_disjoint(runs[tgt].0@));
        assert forall|i: int, j: int| 0 <= i < j < a.len() implies !overlap(#[trigger] a[i], #[trigger] a[j]) by {
            if j == a.len() - 1 { assert(a[j] == t); assert(a[i] == runs[tgt].0@[i]); assert(!overlap(t, runs[tgt].0@[i])); }
            else { assert(a[i] == runs[tgt].0@[i] && a[j] == runs[tgt].0@[j]); }
        }
    }
    lemma_permutes_disjoint(a, new[tgt].0@);
    assert forall|r: int| 0 <= r < new.len() implies run_disjoint(#[trigger] new[r].0@) by { if r != tgt { assert(new[r] == runs[r]); } }
    lemma_total_update(runs, new, tgt);
    let ts = done.push(t);
    let pp = pos.push(tgt);
    assert forall|p: int| 0 <= p < ts.len() implies 0 <= #[trigger] pp[p] < new.len() && has(new[pp[p]].0@, ts[p]) by {
        if p < done.len() {
            assert(pp[p] == pos[p] && ts[p] == done[p]);
            if pos[p] == tgt {
                let k = choose|k: int| 0 <= k < runs[tgt].0@.len() && #[trigger] runs[tgt].0@[k] == done[p];
                assert(a[k] == done[p]);
                assert(has(a, done[p]));
                lemma_permutes_has(a, new[tgt].0@, done[p]);
            } else { assert(new[pos[p]] == runs[pos[p]]); }
        } else {
            assert(a[a.len() - 1] == t);
            assert(has(a, t));
            lemma_permutes_has(a, new[tgt].0@, t);
        }
    }
    assert forall|p: int, q: int| 0 <= p < q < ts.len() && overlap(ts[p], ts[q]) implies #[trigger] pp[p] < #[trigger] pp[q] by {
        if q < done.len() { assert(pos[p] < pos[q]); } else { assert(ts[q] == t && ts[p] == done[p]); assert(pos[p] < tgt); }
    }
}
proof fn lemma_place_new(done: Seq<Tbl>, runs: Seq<Run>, new: Seq<Run>, pos: Seq<int>, t: Tbl)
    requires placed(done, runs, pos), all_disjoint(runs), new.len() == runs.len() + 1, new.drop_last() =~= runs, new.last().0@ =~= seq![t],
        total(runs) == done.len(),
    ensures placed(done.push(t), new, pos.push(runs.len() as int)), all_disjoint(new), total(new) == done.len() + 1, all_nonempty(runs) ==> all_nonempty(new),
{
    if all_nonempty(runs) { assert forall|r: int| 0 <= r < new.len() implies (#[trigger] new[r]).0@.len() >= 1 by { if r < runs.len() { assert(new[r] == new.drop_last()[r]); } } }
    let ts = done.push(t);
    let pp = pos.push(runs.len() as int);
    assert forall|r: int| 0 <= r < new.len() implies run_disjoint(#[trigger] new[r].0@) by { if r < runs.len() { assert(new[r] == new.drop_last()[r]); } }
    assert forall|p: int| 0 <= p < ts.len() implies 0 <= #[trigger] pp[p] < new.len() && has(new[pp[p]].0@, ts[p]) by {
        if p < done.len() { assert(new[pos[p]] == new.drop_last()[pos[p]]); } else { assert(new.last().0@[0] == t); }
    }
    assert forall|p: int, q: int| 0 <= p < q < ts.len() && overlap(ts[p], ts[q]) implies #[trigger] pp[p] < #[trigger] pp[q] by {
        if q < done.len() { assert(pos[p] < pos[q]); }
    }
}

} // verus!
fn main() {}
