//@ UNIT orderings
// The two comparison functions that define merge order: InternalKey::cmp (user key ascending, then seqno DESCENDING) and the
// blob merge scanner's IteratorValue::cmp (key ascending, then seqno descending - it must agree with the index stream it is
// consumed in lock step with).  Obligations C01.1, C08.8
use vstd::prelude::*;
use vstd::std_specs::cmp::*;
use core::cmp::Ordering;
verus! {

//@ INCLUDE prelude/key.rs
pub type SeqNo = u64;
pub type BlobFileId = u64;

pub open spec fn lex(k1: int, s1: u64, k2: int, s2: u64) -> Ordering {
    if k1 < k2 { Ordering::Less } else if k1 > k2 { Ordering::Greater }
    else if s1 < s2 { Ordering::Less } else if s1 > s2 { Ordering::Greater } else { Ordering::Equal }
}
/// TRUSTED: std's lexicographic Ord on pairs, `(a, b).cmp(&(c, d))`, for (&Key, u64)
#[verifier::external_body]
pub fn cmp_key_u64(a: &Key, b: u64, c: &Key, d: u64) -> (r: Ordering) ensures r == lex(a.rank(), b, c.rank(), d) { unimplemented!() }
/// std::cmp::Reverse on a borrowed seqno
pub struct Rev { pub v: u64 }
pub trait AsU64: Sized { spec fn val(self) -> u64; fn get(self) -> (r: u64) ensures r == self.val(); }
impl AsU64 for u64 { open spec fn val(self) -> u64 { self } fn get(self) -> (r: u64) { self } }
impl AsU64 for &u64 { open spec fn val(self) -> u64 { *self } fn get(self) -> (r: u64) { *self } }
pub fn rev<T: AsU64>(x: T) -> (r: Rev) ensures r.v == x.val() { Rev { v: x.get() } }
/// TRUSTED: `(a, Reverse(b)).cmp(&(c, Reverse(d)))` = lexicographic with the second component reversed
#[verifier::external_body]
pub fn cmp_key_rev(a: &Key, b: Rev, c: &Key, d: Rev) -> (r: Ordering) ensures r == lex(a.rank(), d.v, c.rank(), b.v) { unimplemented!() }

#[derive(Clone, Copy, PartialEq, Eq, Structural)]
pub enum ValueType { Value, Tombstone, WeakTombstone, Indirection }

//@ SUBST `UserKey` ==> `Key`
//@ SUBST `std :: cmp :: Ordering` ==> `Ordering`
//@ FROM src/key.rs :: - :: struct InternalKey
struct InternalKey {
    user_key: Key,
    seqno: SeqNo,
    value_type: ValueType,
}
//@ END
impl InternalKey {
//@ FROM src/key.rs :: impl Ord for InternalKey :: fn cmp :: OBL C01.1
//@ SUBST `( $1 , $2 ) . cmp ( & ( $3 , $4 ) )` ==> `cmp_key_u64($1, $2, $3, $4)`
    fn cmp(&self, other: &Self) -> /*+*/(r: /*-*/Ordering/*+*/)
        ensures
            // C01.1: user key ascending, then sequence number descending (the newest version of a key comes first)
            r == (if self.user_key.rank() < other.user_key.rank() { Ordering::Less } else if self.user_key.rank() > other.user_key.rank() { Ordering::Greater }
                  else if self.seqno > other.seqno { Ordering::Less } else if self.seqno < other.seqno { Ordering::Greater } else { Ordering::Equal })/*-*/
    {
        cmp_key_u64(&self.user_key, other.seqno, &other.user_key, self.seqno)
    }
//@ END
}

pub struct ScanEntry { pub key: Key, pub seqno: SeqNo }
//@ FROM src/vlog/blob_file/merge.rs :: - :: struct IteratorValue
//@ SUBST `IteratorIndex` ==> `usize`
struct IteratorValue {
    index: usize,
    scan_entry: ScanEntry,
    blob_file_id: BlobFileId,
}
//@ END
impl IteratorValue {
//@ FROM src/vlog/blob_file/merge.rs :: impl Ord for IteratorValue :: fn cmp :: OBL C08.8
//@ SUBST `Reverse ( $1 )` ==> `rev($1)`
//@ SUBST `( $1 , $2 ) . cmp ( & ( $3 , $4 ) )` ==> `cmp_key_rev($1, $2, $3, $4)`
    fn cmp(&self, other: &Self) -> /*+*/(r: /*-*/Ordering/*+*/)
        ensures
            // C08.8: blobs are merged by key ascending, then seqno descending - the order in which the index entries that point to them arrive
            r == (if self.scan_entry.key.rank() < other.scan_entry.key.rank() { Ordering::Less } else if self.scan_entry.key.rank() > other.scan_entry.key.rank() { Ordering::Greater }
                  else if self.scan_entry.seqno > other.scan_entry.seqno { Ordering::Less } else if self.scan_entry.seqno < other.scan_entry.seqno { Ordering::Greater } else { Ordering::Equal })/*-*/
    {
        cmp_key_rev(&self.scan_entry.key, rev(&self.scan_entry.seqno), &other.scan_entry.key, rev(&other.scan_entry.seqno))
    }
//@ END
}

} // verus!
fn main() {}
