//@ UNIT orphans
// Tree::cleanup_orphaned_version (recovery): removes only regular files named v* other than v<latest>.
// Rule R18: the `for` loop is replaced by its language-defined desugaring (`loop { let Some(x) = it.next() else { break }; .. }`)
// because this Verus does not support `continue` inside `for`.
// Obligations C20.3, C05.5
use vstd::prelude::*;
use vstd::std_specs::iter::*;
verus! {

#[verifier::external_body] pub struct IoError { p: u8 }
#[verifier::external_body] pub struct Error { p: u8 }
impl From<IoError> for Error { #[verifier::external_body] fn from(e: IoError) -> (r: Error) { unimplemented!() } }
impl vstd::std_specs::convert::FromSpecImpl<IoError> for Error {
    open spec fn obeys_from_spec() -> bool { false }
    uninterp spec fn from_spec(e: IoError) -> Error;
}
#[verifier::external_body] pub struct Path { p: u8 }
#[verifier::external_body] pub struct PathBuf { p: u8 }

//@ INCLUDE prelude/seqiter.rs

/// a file name in the tree folder (TRUSTED string model): whether it starts with 'v', and which name `v<id>` it equals
#[verifier::external_body] pub struct Name { p: u8 }
impl Name {
    pub uninterp spec fn v_prefixed(&self) -> bool;
    pub uninterp spec fn is_version_file(&self, id: u64) -> bool;
    #[verifier::external_body] pub fn to_string_lossy(&self) -> (r: Lossy) ensures r.v == self.v_prefixed() { unimplemented!() }
    /// stands for `*name != *version_str` (OsStr compared with str)
    #[verifier::external_body] pub fn differs_from(&self, v: &VersionFileName) -> (r: bool) ensures r == !self.is_version_file(v.id) { unimplemented!() }
    /// `*name < *version_str` / `>` : byte-lexicographic order of the names - a strictly smaller / larger name is a different one, and
    /// nothing else is known ("v9" > "v10")
    #[verifier::external_body] pub fn name_lt(&self, v: &VersionFileName) -> (r: bool) ensures r ==> !self.is_version_file(v.id) { unimplemented!() }
    #[verifier::external_body] pub fn name_gt(&self, v: &VersionFileName) -> (r: bool) ensures r ==> !self.is_version_file(v.id) { unimplemented!() }
    /// `<=` / `>=`: true for the same name
    #[verifier::external_body] pub fn name_le(&self, v: &VersionFileName) -> (r: bool) ensures self.is_version_file(v.id) ==> r { unimplemented!() }
    #[verifier::external_body] pub fn name_ge(&self, v: &VersionFileName) -> (r: bool) ensures self.is_version_file(v.id) ==> r { unimplemented!() }
}
pub struct Lossy { pub v: bool }
impl Lossy { #[verifier::external_body] pub fn starts_with(&self, c: char) -> (r: bool) requires c == 'v' ensures r == self.v { unimplemented!() } }
pub struct VersionFileName { pub id: u64 }
/// stands for `format!("v{id}")` (R12)
pub fn version_file_name(id: u64) -> (r: VersionFileName) ensures r.id == id { VersionFileName { id } }

pub struct FileType { pub dir: bool }
impl FileType { pub fn is_dir(&self) -> (r: bool) ensures r == self.dir { self.dir } }
pub struct DirEntry { pub name: Name, pub dir: bool }
impl DirEntry {
    #[verifier::external_body] pub fn file_type(&self) -> (r: Result<FileType, IoError>) ensures r is Ok ==> r->Ok_0.dir == self.dir { unimplemented!() }
    #[verifier::external_body] pub fn file_name(&self) -> (r: Name) ensures r == self.name { unimplemented!() }
    #[verifier::external_body] pub fn path(&self) -> (r: PathBuf) ensures r.names() == self.name { unimplemented!() }
}
impl PathBuf { pub uninterp spec fn names(&self) -> Name; }
/// effect token (R15): the names unlinked so far
pub struct Fx { pub ghost removed: Seq<Name> }
#[verifier::external_body]
pub fn remove_file(p: PathBuf, Tracked(fx): Tracked<&mut Fx>) -> (r: Result<(), IoError>)
    ensures r is Ok ==> final(fx).removed == old(fx).removed.push(p.names()), r is Err ==> final(fx).removed == old(fx).removed
{ unimplemented!() }
/// std::fs::read_dir: the entries of the folder, each possibly an error
#[verifier::external_body]
pub fn read_dir(p: &Path) -> (r: Result<SeqIter<Result<DirEntry, IoError>>, IoError>) ensures r is Ok ==> r->Ok_0.rest() == dir_entries(p) { unimplemented!() }
/// the directory listing (ghost)
pub uninterp spec fn dir_entries(p: &Path) -> Seq<Result<DirEntry, IoError>>;
pub open spec fn was_removed(removed: Seq<Name>, n: Name) -> bool { exists|k: int| 0 <= k < removed.len() && #[trigger] removed[k] == n }

pub open spec fn orphan(e: DirEntry, latest: u64) -> bool { !e.dir && e.name.v_prefixed() && !e.name.is_version_file(latest) }
pub open spec fn entries_ok(s: Seq<Result<DirEntry, IoError>>) -> bool { forall|i: int| 0 <= i < s.len() ==> (#[trigger] s[i]) is Ok }

//@ FROM src/tree/mod.rs :: impl Tree :: fn cleanup_orphaned_version :: OBL C20.3, C05.5
//@ SUBST `crate :: Result < ( ) >` ==> `Result<(), Error>`
//@ SUBST `crate :: version :: VersionId` ==> `u64`
//@ SUBST `format ! ( "v{latest_version_id}" )` ==> `version_file_name(latest_version_id)`
//@ SUBST `std :: fs :: read_dir ( path )` ==> `read_dir(path)`
//@ SUBST `* name != * version_str` ==> `name.differs_from(&version_str)`
//@ SUBST `* name == * version_str` ==> `!name.differs_from(&version_str)`
//@ SUBST `* name < * version_str` ==> `name.name_lt(&version_str)`
//@ SUBST `* name > * version_str` ==> `name.name_gt(&version_str)`
//@ SUBST `* name <= * version_str` ==> `name.name_le(&version_str)`
//@ SUBST `* name >= * version_str` ==> `name.name_ge(&version_str)`
//@ SUBST `std :: fs :: remove_file ( $1 )` ==> `remove_file($1, Tracked(fx))`
//@ SUBST `for file in $1 {` ==> `let mut iter__ = $1; loop { let Some(file) = iter__.next() else { break; };`
fn cleanup_orphaned_version(
    path: &Path,
    latest_version_id: u64,
/*+*/    Tracked(fx): Tracked<&mut Fx>,/*-*/
) -> /*+*/(r: /*-*/Result<(), Error>/*+*/)
    requires old(fx).removed.len() == 0,
    ensures
        // C20.3 (safety): only regular files named v* other than the current version file are ever unlinked - whatever happens
        forall|k: int| 0 <= k < final(fx).removed.len() ==> (#[trigger] final(fx).removed[k]).v_prefixed() && !final(fx).removed[k].is_version_file(latest_version_id),
        // C20.3 (completeness): on success every other version file of the folder - older or newer than the current one - is gone
        r is Ok ==> forall|i: int| 0 <= i < dir_entries(path).len() && (#[trigger] dir_entries(path)[i]) is Ok && orphan(dir_entries(path)[i]->Ok_0, latest_version_id)
            ==> was_removed(final(fx).removed, dir_entries(path)[i]->Ok_0.name),
/*-*/
{
    let version_str = version_file_name(latest_version_id);

    /*+*/let ghost es = dir_entries(path);
    let ghost mut c: int = 0;
    proof { assert(es.skip(0) =~= es); }/*-*/
    let mut iter__ = read_dir(path)?; loop
        /*+*/invariant
            version_str.id == latest_version_id, es == dir_entries(path),
            0 <= c <= es.len(), iter__.rest() == es.skip(c),
            forall|i: int| 0 <= i < c && (#[trigger] es[i]) is Ok && orphan(es[i]->Ok_0, latest_version_id) ==> was_removed(fx.removed, es[i]->Ok_0.name),
            forall|k: int| 0 <= k < fx.removed.len() ==> (#[trigger] fx.removed[k]).v_prefixed() && !fx.removed[k].is_version_file(latest_version_id),
        ensures c == es.len(),
        decreases iter__.rest().len(),/*-*/
    {
        /*+*/let ghost rem0 = fx.removed;
        proof { if c < es.len() { assert(es.skip(c)[0] == es[c]); assert(es.skip(c).skip(1) =~= es.skip(c + 1)); } else { assert(es.skip(c).len() == 0); } }/*-*/
        let Some(file) = iter__.next() else { /*+*/proof { assert(c == es.len()); }/*-*/ break; };
        /*+*/proof { assert(file == es[c]); }/*-*/
        let dirent = file?;

        if dirent.file_type()?.is_dir() {
            /*+*/proof { c = c + 1; }/*-*/
            continue;
        }

        let name = dirent.file_name();

        if name.to_string_lossy().starts_with('v') && name.differs_from(&version_str) {
            remove_file(dirent.path(), Tracked(fx))?;
            /*+*/proof { assert(fx.removed[rem0.len() as int] == dirent.name); }/*-*/
        }
        /*+*/proof {
            assert forall|i: int| 0 <= i < c + 1 && (#[trigger] es[i]) is Ok && orphan(es[i]->Ok_0, latest_version_id) implies was_removed(fx.removed, es[i]->Ok_0.name) by {
                if i < c { let k = choose|k: int| 0 <= k < rem0.len() && #[trigger] rem0[k] == es[i]->Ok_0.name; assert(fx.removed[k] == rem0[k]); }
            }
            c = c + 1;
        }/*-*/
    }

    Ok(())
}
//@ END

} // verus!
fn main() {}
