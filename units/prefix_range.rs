//@ UNIT prefix_range
// range::{prefix_upper_range, prefix_to_range} (src/range.rs): the key range a prefix scan uses contains exactly the keys that
// start with the prefix - for every byte string, including prefixes ending in 0xFF bytes and the all-0xFF prefix.
// Obligations C03.10
use vstd::prelude::*;
verus! {

global size_of usize == 8;

/// UserKey / Slice as a byte string
pub struct UserKey { pub v: Vec<u8> }
impl View for UserKey { type V = Seq<u8>; open spec fn view(&self) -> Seq<u8> { self.v@ } }
/// `Vec<u8>::into()` / `<&[u8]>::into()`
fn key_from_vec(v: Vec<u8>) -> (r: UserKey) ensures r@ == v@ { UserKey { v } }
#[verifier::external_body] fn key_from_slice(s: &[u8]) -> (r: UserKey) ensures r@ == s@ { unimplemented!() }
#[verifier::external_body] fn to_vec(s: &[u8]) -> (r: Vec<u8>) ensures r@ == s@ { unimplemented!() }
enum Bound<T> { Included(T), Excluded(T), Unbounded }

/// byte-wise lexicographic order (the order of keys in the tree)
spec fn lex_lt(a: Seq<u8>, b: Seq<u8>) -> bool
    decreases a.len()
{
    if b.len() == 0 { false } else if a.len() == 0 { true }
    else if a[0] != b[0] { a[0] < b[0] } else { lex_lt(a.skip(1), b.skip(1)) }
}
spec fn lex_le(a: Seq<u8>, b: Seq<u8>) -> bool { a == b || lex_lt(a, b) }
spec fn starts_with(k: Seq<u8>, p: Seq<u8>) -> bool { k.len() >= p.len() && k.subrange(0, p.len() as int) == p }
/// key k lies inside the bounds
spec fn within(k: Seq<u8>, lo: Bound<UserKey>, hi: Bound<UserKey>) -> bool {
    (match lo { Bound::Included(x) => lex_le(x@, k), Bound::Excluded(x) => lex_lt(x@, k), Bound::Unbounded => true })
    && (match hi { Bound::Included(x) => lex_le(k, x@), Bound::Excluded(x) => lex_lt(k, x@), Bound::Unbounded => true })
}

/// p <= k for every k that starts with p, and conversely p <= k together with k < upper forces the prefix
proof fn lemma_prefix_lower(p: Seq<u8>, k: Seq<u8>)
    requires starts_with(k, p)
    ensures lex_le(p, k)
    decreases p.len()
{
    if p.len() == 0 { if k.len() == 0 { assert(p =~= k); } }
    else {
        assert(k[0] == k.subrange(0, p.len() as int)[0]);
        assert(k.skip(1).subrange(0, p.len() - 1) =~= k.subrange(0, p.len() as int).skip(1));
        lemma_prefix_lower(p.skip(1), k.skip(1));
        if p.skip(1) == k.skip(1) { assert(p =~= seq![p[0]] + p.skip(1)); assert(k =~= seq![k[0]] + k.skip(1)); }
    }
}
/// upper = p[..i] ++ [p[i] + 1] where p[i] < 255 and p[i+1..] is all 0xFF: then  starts_with(k, p) <==> p <= k < upper
proof fn lemma_prefix_upper(p: Seq<u8>, i: int, k: Seq<u8>)
    requires 0 <= i < p.len(), p[i] < 255, forall|j: int| i < j < p.len() ==> p[j] == 255
    ensures starts_with(k, p) <==> lex_le(p, k) && lex_lt(k, p.subrange(0, i).push((p[i] + 1) as u8))
    decreases p.len()
{
    let u = p.subrange(0, i).push((p[i] + 1) as u8);
    if k.len() == 0 {
        // k is empty: it does not start with p (p non-empty); and p <= k is false
        assert(!lex_lt(p, k)); assert(p != k);
    } else if i == 0 {
        assert(u =~= seq![(p[0] + 1) as u8]);
        if k[0] < p[0] { assert(!lex_lt(p, k)); assert(!starts_with(k, p)) by { if starts_with(k, p) { assert(k.subrange(0, p.len() as int)[0] == p[0]); } } }
        else if k[0] > p[0] {
            assert(u.len() == 1 && u[0] == p[0] + 1);
            assert(!lex_lt(k, u)) by { if k[0] == u[0] { assert(u.skip(1).len() == 0); assert(!lex_lt(k.skip(1), u.skip(1))); } else { assert(k[0] > u[0]); } }
            assert(!starts_with(k, p)) by { if starts_with(k, p) { assert(k.subrange(0, p.len() as int)[0] == p[0]); } }
        } else {
            // k[0] == p[0] < u[0]: k < u; and p <= k iff p[1..] (all 0xFF) <= k[1..] iff k[1..] starts with p[1..]
            assert(lex_lt(k, u));
            lemma_all_ff(p.skip(1), k.skip(1));
            assert(starts_with(k, p) <==> starts_with(k.skip(1), p.skip(1))) by {
                if starts_with(k, p) { assert(k.skip(1).subrange(0, p.len() - 1) =~= k.subrange(0, p.len() as int).skip(1)); }
                if starts_with(k.skip(1), p.skip(1)) { assert(k.subrange(0, p.len() as int) =~= seq![k[0]] + k.skip(1).subrange(0, p.len() - 1)); assert(p =~= seq![p[0]] + p.skip(1)); }
            }
            assert(lex_le(p, k) <==> lex_le(p.skip(1), k.skip(1))) by {
                if p == k { assert(p.skip(1) == k.skip(1)); }
                if p.skip(1) == k.skip(1) { assert(p =~= seq![p[0]] + p.skip(1)); assert(k =~= seq![k[0]] + k.skip(1)); }
            }
        }
    } else {
        assert(u[0] == p[0]);
        assert(u.skip(1) =~= p.skip(1).subrange(0, i - 1).push((p.skip(1)[i - 1] + 1) as u8));
        if k[0] != p[0] {
            assert(!starts_with(k, p)) by { if starts_with(k, p) { assert(k.subrange(0, p.len() as int)[0] == p[0]); } }
            if k[0] < p[0] { assert(!lex_lt(p, k)); } else { assert(!lex_lt(k, u)); }
        } else {
            lemma_prefix_upper(p.skip(1), i - 1, k.skip(1));
            assert(starts_with(k, p) <==> starts_with(k.skip(1), p.skip(1))) by {
                if starts_with(k, p) { assert(k.skip(1).subrange(0, p.len() - 1) =~= k.subrange(0, p.len() as int).skip(1)); }
                if starts_with(k.skip(1), p.skip(1)) { assert(k.subrange(0, p.len() as int) =~= seq![k[0]] + k.skip(1).subrange(0, p.len() - 1)); assert(p =~= seq![p[0]] + p.skip(1)); }
            }
            assert(lex_le(p, k) <==> lex_le(p.skip(1), k.skip(1))) by {
                if p == k { assert(p.skip(1) == k.skip(1)); }
                if p.skip(1) == k.skip(1) { assert(p =~= seq![p[0]] + p.skip(1)); assert(k =~= seq![k[0]] + k.skip(1)); }
            }
        }
    }
}
/// q is all 0xFF: q <= k iff k starts with q
proof fn lemma_all_ff(q: Seq<u8>, k: Seq<u8>)
    requires forall|j: int| 0 <= j < q.len() ==> q[j] == 255
    ensures lex_le(q, k) <==> starts_with(k, q)
    decreases q.len()
{
    if q.len() == 0 { assert(k.subrange(0, 0) =~= q); if k.len() > 0 { assert(lex_lt(q, k)); } else { assert(q =~= k); } }
    else if k.len() == 0 { assert(!lex_lt(q, k)); assert(q != k); }
    else {
        if k[0] != 255 { assert(k[0] < q[0]); assert(!lex_lt(q, k)); assert(!starts_with(k, q)) by { if starts_with(k, q) { assert(k.subrange(0, q.len() as int)[0] == q[0]); } } }
        else {
            lemma_all_ff(q.skip(1), k.skip(1));
            assert(starts_with(k, q) <==> starts_with(k.skip(1), q.skip(1))) by {
                if starts_with(k, q) { assert(k.skip(1).subrange(0, q.len() - 1) =~= k.subrange(0, q.len() as int).skip(1)); }
                if starts_with(k.skip(1), q.skip(1)) { assert(k.subrange(0, q.len() as int) =~= seq![k[0]] + k.skip(1).subrange(0, q.len() - 1)); assert(q =~= seq![q[0]] + q.skip(1)); }
            }
            assert(lex_le(q, k) <==> lex_le(q.skip(1), k.skip(1))) by {
                if q == k { assert(q.skip(1) == k.skip(1)); }
                if q.skip(1) == k.skip(1) { assert(q =~= seq![q[0]] + q.skip(1)); assert(k =~= seq![k[0]] + k.skip(1)); }
            }
        }
    }
}

use crate::Bound::{Included, Excluded, Unbounded};

//@ FROM src/range.rs :: - :: fn prefix_upper_range :: OBL C03.10
//@ SUBST `use std :: ops :: Bound :: { Excluded , Unbounded } ;` ==> ``
//@ SUBST `assert ! ( ! prefix . is_empty ( ) , "prefix may not be empty" ) ;` ==> ``
//@ SUBST `prefix . to_vec ( )` ==> `to_vec(prefix)`
//@ SUBST `for ( idx , byte ) in end . iter_mut ( ) . rev ( ) . enumerate ( ) {` ==> `for idx in 0..len { let byte = &mut end[len - 1 - idx];`
//@ SUBST `end . into ( )` ==> `key_from_vec(end)`
fn prefix_upper_range(prefix: &[u8]) -> /*+*/(r:/*-*/ Bound<UserKey>/*+*/)
    requires prefix@.len() > 0
    ensures forall|k: Seq<u8>| starts_with(k, prefix@) <==> lex_le(prefix@, k) && within(k, Bound::Unbounded, r)/*-*/
{
    let mut end = to_vec(prefix);
    let len = end.len();

    for idx in 0..len
        /*+*/invariant len == prefix@.len(), end@ == prefix@, forall|j: int| len - idx <= j < len ==> prefix@[j] == 255,/*-*/
    { let byte = &mut end[len - 1 - idx];
        let idx = len - 1 - idx;

        if *byte < 255 {
            *byte += 1;
            end.truncate(idx + 1);
            /*+*/proof {
                assert(end@ =~= prefix@.subrange(0, idx as int).push((prefix@[idx as int] + 1) as u8));
                assert forall|k: Seq<u8>| starts_with(k, prefix@) <==> lex_le(prefix@, k) && lex_lt(k, end@) by { lemma_prefix_upper(prefix@, idx as int, k); }
            }/*-*/
            return Excluded(key_from_vec(end));
        }
    }
    /*+*/proof { assert forall|k: Seq<u8>| starts_with(k, prefix@) <==> lex_le(prefix@, k) by { lemma_all_ff(prefix@, k); } }/*-*/

    Unbounded
}
//@ END

//@ FROM src/range.rs :: - :: fn prefix_to_range :: OBL C03.10
//@ SUBST `use std :: ops :: Bound :: { Included , Unbounded } ;` ==> ``
//@ SUBST `prefix . into ( )` ==> `key_from_slice(prefix)`
fn prefix_to_range(prefix: &[u8]) -> /*+*/(r:/*-*/ (Bound<UserKey>, Bound<UserKey>/*+*/))
    ensures forall|k: Seq<u8>| starts_with(k, prefix@) <==> within(k, r.0, r.1/*-*/)
{
    if prefix.is_empty() {
        /*+*/proof { assert forall|k: Seq<u8>| starts_with(k, prefix@) by { assert(k.subrange(0, 0) =~= prefix@); } }/*-*/
        return (Unbounded, Unbounded);
    }

    (Included(key_from_slice(prefix)), prefix_upper_range(prefix))
}
//@ END

}
fn main() {}
