//@ UNIT range_bounds
// TreeIter::create_range (src/range.rs), bound widening: the user-key bounds of a scan are turned into internal-key bounds that
// contain an entry (key, seqno, type) exactly when the user bounds contain its key - for every seqno and type, for inclusive,
// exclusive and unbounded ends.  Obligation C03.11
use vstd::prelude::*;
use vstd::std_specs::cmp::*;
verus! {

global size_of usize == 8;

//@ INCLUDE prelude/key.rs
//@ INCLUDE prelude/entry.rs

impl InternalKey {
    /// InternalKey::new(key.as_ref(), seqno, type)
    #[verifier::external_body]
    fn new(user_key: &KeyRef, seqno: SeqNo, value_type: ValueType) -> (r: Self) ensures r.user_key.rank() == user_key.rank(), r.seqno == seqno, r.value_type == value_type { unimplemented!() }
}
/// the order of InternalKey (proved for InternalKey::cmp in unit orderings, C01.1): user key ascending, then seqno descending
spec fn ik_le(a: InternalKey, b: InternalKey) -> bool { a.user_key.rank() < b.user_key.rank() || (a.user_key.rank() == b.user_key.rank() && a.seqno >= b.seqno) }
spec fn ik_lt(a: InternalKey, b: InternalKey) -> bool { a.user_key.rank() < b.user_key.rank() || (a.user_key.rank() == b.user_key.rank() && a.seqno > b.seqno) }
spec fn lower_ok(lo: Bound<InternalKey>, e: InternalKey) -> bool { match lo { Bound::Included(x) => ik_le(x, e), Bound::Excluded(x) => ik_lt(x, e), Bound::Unbounded => true } }
spec fn upper_ok(hi: Bound<InternalKey>, e: InternalKey) -> bool { match hi { Bound::Included(x) => ik_le(e, x), Bound::Excluded(x) => ik_lt(e, x), Bound::Unbounded => true } }

//@ WRAPPER_BEGIN
/// wrapper (generated) around the two statements of the closure of TreeIter::create_range that widen the bounds
fn widen(range: &RangeB) -> (r: (Bound<InternalKey>, Bound<InternalKey>))
    ensures forall|e: InternalKey| lower_ok(r.0, e) && upper_ok(r.1, e) <==> range.has(e.user_key.rank())
{
//@ FROM src/range.rs :: impl TreeIter :: fn create_range :: CLOSURE 1 `| lock | {` :: STMTS `let lo =` .. `let hi =` :: OBL C03.11
//@ SUBST `crate :: ValueType ::` ==> `ValueType::`
    let lo = match range.start_bound() {
        // NOTE: See memtable.rs for range explanation
        Bound::Included(key) => Bound::Included(InternalKey::new(
            key.as_ref(),
            SeqNo::MAX,
            ValueType::Tombstone,
        )),
        Bound::Excluded(key) => Bound::Excluded(InternalKey::new(
            key.as_ref(),
            0,
            ValueType::Tombstone,
        )),
        Bound::Unbounded => Bound::Unbounded,
    };

    let hi = match range.end_bound() {
        Bound::Included(key) => {
            Bound::Included(InternalKey::new(key.as_ref(), 0, ValueType::Value))
        }
        Bound::Excluded(key) => Bound::Excluded(InternalKey::new(
            key.as_ref(),
            SeqNo::MAX,
            ValueType::Value,
        )),
        Bound::Unbounded => Bound::Unbounded,
    };
    /*+*/(lo, hi)/*-*/
//@ END
}
//@ WRAPPER_END

}
fn main() {}
