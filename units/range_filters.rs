//@ UNIT range_filters
// The per-source snapshot filters of TreeIter::create_range (closure-level extraction, R10c): an entry passes iff its
// seqno is below the snapshot's; an *error* item always passes, so that it reaches the caller.  Obligations C10.7, C02.8
use vstd::prelude::*;
verus! {

pub type SeqNo = u64;
#[verifier::external_body] pub struct Key { p: u8 }
#[verifier::external_body] pub struct Error { p: u8 }
pub struct InternalKey { pub user_key: Key, pub seqno: SeqNo }
pub struct InternalValue { pub key: InternalKey }
pub type Item = Result<InternalValue, Error>;

//@ FROM src/range.rs :: - :: fn seqno_filter :: OBL C02.1
fn seqno_filter(item_seqno: SeqNo, seqno: SeqNo) -> /*+*/(r: /*-*/bool/*+*/) ensures r == (item_seqno < seqno)/*-*/ {
    item_seqno < seqno
}
//@ END

/// TRUSTED std contracts (so that equivalent formulations of the filters remain decidable)
pub assume_specification<T, E, F: FnOnce(T) -> bool>[ Result::<T, E>::is_ok_and ](r: Result<T, E>, f: F) -> (b: bool)
    requires r is Ok ==> call_requires(f, (r->Ok_0,)),
    ensures r is Err ==> !b, r is Ok ==> call_ensures(f, (r->Ok_0,), b);

/// what every per-source filter of a scan must compute
pub open spec fn passes(item: Item, seqno: SeqNo) -> bool { match item { Ok(v) => v.key.seqno < seqno, Err(_) => true } }

//@ WRAPPER_BEGIN
/// wrapper (generated): the filter over a single-table run's reader
fn table_filter(it: &Item, seqno: SeqNo) -> (b: bool)
    ensures b == passes(*it, seqno)
{
    let f =
//@ FROM src/range.rs :: impl TreeIter :: fn create_range :: CLOSURE 1 `move | item |` :: OBL C10.7, C02.8
        move |item/*+*/: &Item/*-*/| /*+*/-> (b: bool) ensures b == passes(*item, seqno) {/*-*/ match item {
            Ok(item) => seqno_filter(item.key.seqno, seqno),
            Err(_) => true,
        }/*+*/ }/*-*/
//@ END
    ;
    f(it)
}
//@ WRAPPER_END

//@ WRAPPER_BEGIN
/// wrapper (generated): the filter over a multi-table run's reader
fn run_filter(it: &Item, seqno: SeqNo) -> (b: bool)
    ensures b == passes(*it, seqno)
{
    let f =
//@ FROM src/range.rs :: impl TreeIter :: fn create_range :: CLOSURE 2 `move | item |` :: OBL C10.7, C02.8
        move |item/*+*/: &Item/*-*/| /*+*/-> (b: bool) ensures b == passes(*item, seqno) {/*-*/ match item {
            Ok(item) => seqno_filter(item.key.seqno, seqno),
            Err(_) => true,
        }/*+*/ }/*-*/
//@ END
    ;
    f(it)
}
//@ WRAPPER_END

//@ WRAPPER_BEGIN
/// wrapper (generated): the filters over sealed / active memtables (items are plain values there)
fn sealed_filter(it: &InternalValue, seqno: SeqNo) -> (b: bool)
    ensures b == (it.key.seqno < seqno)
{
    let f =
//@ FROM src/range.rs :: impl TreeIter :: fn create_range :: CLOSURE 3 `move | item |` :: OBL C02.8
        move |item/*+*/: &InternalValue/*-*/| /*+*/-> (b: bool) ensures b == (item.key.seqno < seqno) {/*-*/ seqno_filter(item.key.seqno, seqno)/*+*/ }/*-*/
//@ END
    ;
    f(it)
}
fn active_filter(it: &InternalValue, seqno: SeqNo) -> (b: bool)
    ensures b == (it.key.seqno < seqno)
{
    let f =
//@ FROM src/range.rs :: impl TreeIter :: fn create_range :: CLOSURE 4 `move | item |` :: OBL C02.8
        move |item/*+*/: &InternalValue/*-*/| /*+*/-> (b: bool) ensures b == (item.key.seqno < seqno) {/*-*/ seqno_filter(item.key.seqno, seqno)/*+*/ }/*-*/
//@ END
    ;
    f(it)
}
fn ephemeral_filter(it: &InternalValue, seqno: &SeqNo) -> (b: bool)
    ensures b == (it.key.seqno < *seqno)
{
    let f =
//@ FROM src/range.rs :: impl TreeIter :: fn create_range :: CLOSURE 5 `move | item |` :: OBL C02.8
        move |item/*+*/: &InternalValue/*-*/| /*+*/-> (b: bool) ensures b == (item.key.seqno < *seqno) {/*-*/ seqno_filter(item.key.seqno, *seqno)/*+*/ }/*-*/
//@ END
    ;
    f(it)
}
//@ WRAPPER_END

} // verus!
fn main() {}
