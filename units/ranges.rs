//@ UNIT ranges
// Key ranges, run lookup, run culling, drop-range containment.
// Obligations: C01.3, C03.2, C03.3, C15.1, C15.2
use vstd::prelude::*;
use vstd::std_specs::cmp::*;
use vstd::std_specs::iter::*;
verus! {

//@ INCLUDE prelude/key.rs
//@ INCLUDE prelude/seqiter.rs
impl Key { #[verifier::external_body] pub fn empty() -> (r: Key) { unimplemented!() } }

//@ SUBST `& [ u8 ]` ==> `KeyRef`
//@ SUBST `Slice :: empty ( )` ==> `Key::empty()`
//@ SUBST `Slice :: from` ==> `Key::from`
//@ SUBST `Slice` ==> `Key`

// ------------------------------------------------------------------ src/key_range.rs
//@ FROM src/key_range.rs :: - :: struct KeyRange
struct KeyRange(UserKey, UserKey);
//@ END

impl KeyRange {
    spec fn lo(&self) -> int { self.0.rank() }
    spec fn hi(&self) -> int { self.1.rank() }
    spec fn has(&self, k: int) -> bool { self.lo() <= k <= self.hi() }
    spec fn wf(&self) -> bool { self.lo() <= self.hi() }

//@ FROM src/key_range.rs :: impl KeyRange :: fn empty
    fn empty() -> Self {
        Self(Key::empty(), Key::empty())
    }
//@ END

//@ FROM src/key_range.rs :: impl KeyRange :: fn min :: OBL C03.2
    fn min(&self) -> /*+*/(r: /*-*/&UserKey/*+*/) ensures r == &self.0/*-*/ {
        &self.0
    }
//@ END

//@ FROM src/key_range.rs :: impl KeyRange :: fn max :: OBL C03.2
    fn max(&self) -> /*+*/(r: /*-*/&UserKey/*+*/) ensures r == &self.1/*-*/ {
        &self.1
    }
//@ END

//@ FROM src/key_range.rs :: impl KeyRange :: fn as_tuple :: OBL C03.2
    fn as_tuple(&self) -> /*+*/(r: /*-*/(&UserKey, &UserKey)/*+*/) ensures r.0 == &self.0, r.1 == &self.1/*-*/ {
        (self.min(), self.max())
    }
//@ END

//@ FROM src/key_range.rs :: impl KeyRange :: fn contains_key :: OBL C03.2
    fn contains_key(&self, key: KeyRef) -> /*+*/(r: /*-*/bool/*+*/)
        ensures r == self.has(key.rank())/*-*/
    {
        let (start, end) = self.as_tuple();
        key >= *start && key <= *end
    }
//@ END

//@ FROM src/key_range.rs :: impl KeyRange :: fn contains_range :: OBL C03.2
    fn contains_range(&self, other: &Self) -> /*+*/(r: /*-*/bool/*+*/)
        ensures r == (self.lo() <= other.lo() && other.hi() <= self.hi()),
                r && other.wf() ==> forall|k: int| other.has(k) ==> self.has(k)/*-*/
    {
        let (start1, end1) = self.as_tuple();
        let (start2, end2) = other.as_tuple();
        start1 <= start2 && end1 >= end2
    }
//@ END

//@ FROM src/key_range.rs :: impl KeyRange :: fn overlaps_with_key_range :: OBL C03.2
    fn overlaps_with_key_range(&self, other: &Self) -> /*+*/(r: /*-*/bool/*+*/)
        requires self.wf(), other.wf(),
        ensures r == (exists|k: int| self.has(k) && other.has(k))/*-*/
    {
        let (start1, end1) = self.as_tuple();
        let (start2, end2) = other.as_tuple();
        /*+*/proof {
            if self.hi() >= other.lo() && self.lo() <= other.hi() {
                let w = if self.lo() >= other.lo() { self.lo() } else { other.lo() };
                assert(self.has(w) && other.has(w));
            }
        }/*-*/
        end1 >= start2 && start1 <= end2
    }
//@ END

//@ FROM src/key_range.rs :: impl KeyRange :: fn overlaps_with_bounds :: OBL C03.2
    fn overlaps_with_bounds(&self, bounds: &(Bound<KeyRef>, Bound<KeyRef>)) -> /*+*/(r: /*-*/bool/*+*/)
        requires self.wf(),
        // C03.2: never culls a table that holds an in-range key
        ensures (exists|k: int| self.has(k) && above_r(bounds.0, k) && below_r(bounds.1, k)) ==> r/*-*/
    {
        let (lo, hi) = bounds;
        let (my_lo, my_hi) = self.as_tuple();

        if *lo == Bound::Unbounded && *hi == Bound::Unbounded {
            return true;
        }

        if *hi == Bound::Unbounded {
            return match lo {
                Bound::Included(key) => key <= my_hi,
                Bound::Excluded(key) => key < my_hi,
                Bound::Unbounded => unreachable!(),
            };
        }

        if *lo == Bound::Unbounded {
            return match hi {
                Bound::Included(key) => key >= my_lo,
                Bound::Excluded(key) => key > my_lo,
                Bound::Unbounded => unreachable!(),
            };
        }

        let lo_included = match lo {
            Bound::Included(key) => key <= my_hi,
            Bound::Excluded(key) => key < my_hi,
            Bound::Unbounded => unreachable!(),
        };

        let hi_included = match hi {
            Bound::Included(key) => key >= my_lo,
            Bound::Excluded(key) => key > my_lo,
            Bound::Unbounded => unreachable!(),
        };

        lo_included && hi_included
    }
//@ END

//@ FROM src/key_range.rs :: impl KeyRange :: fn aggregate :: OBL C07.6, C01.10
//@ SUBST `impl Iterator < Item = & 'a Self >` ==> `SeqIter<&'a KeyRange>`
    fn aggregate<'a>(mut iter: SeqIter<&'a KeyRange>) -> /*+*/(r: /*-*/Self/*+*/)
        ensures
            // C07.6: min of mins, max of maxes
            iter.rest().len() > 0 ==> (forall|i: int| 0 <= i < iter.rest().len() ==> r.lo() <= (#[trigger] iter.rest()[i]).lo() && iter.rest()[i].hi() <= r.hi())
                && (exists|i: int| 0 <= i < iter.rest().len() && r.lo() == (#[trigger] iter.rest()[i]).lo())
                && (exists|i: int| 0 <= i < iter.rest().len() && r.hi() == (#[trigger] iter.rest()[i]).hi())/*-*/
    {
        /*+*/let ghost s0 = iter.rest();/*-*/
        let Some(first) = iter.next() else {
            return Self::empty();
        };

        let mut min = first.min();
        let mut max = first.max();
        /*+*/let ghost mut imin: int = 0; let ghost mut imax: int = 0;/*-*/

        for other in /*+*/it: /*-*/iter
            /*+*/invariant
                s0.len() > 0, it.seq() == s0.skip(1),
                0 <= imin < s0.len() && min.rank() == s0[imin].lo(), 0 <= imax < s0.len() && max.rank() == s0[imax].hi(),
                forall|i: int| 0 <= i < it.index@ + 1 ==> min.rank() <= (#[trigger] s0[i]).lo() && s0[i].hi() <= max.rank(),/*-*/
        {
            /*+*/proof { assert(*other == s0.skip(1)[it.index@]); assert(s0.skip(1)[it.index@] == s0[it.index@ + 1]); }/*-*/
            let x = other.min();
            if x < min {
                min = x;
                /*+*/proof { imin = it.index@ + 1; }/*-*/
            }

            let x = other.max();
            if x > max {
                max = x;
                /*+*/proof { imax = it.index@ + 1; }/*-*/
            }
        }

        Self(min.clone(), max.clone())
    }
//@ END

}

// ------------------------------------------------------------------ src/version/run.rs
trait Ranged {
    spec fn kr(&self) -> KeyRange;
    fn key_range(&self) -> (r: &KeyRange) ensures *r == self.kr();
}

/// TRUSTED: `<[T]>::partition_point` on a slice partitioned by `pred` (binary search):
/// `pred` holds just before the result and fails at it.
pub assume_specification<T, P: FnMut(&T) -> bool>[ <[T]>::partition_point::<P> ](s: &[T], pred: P) -> (r: usize)
    requires forall|i: int| 0 <= i < s@.len() ==> call_requires(pred, (&#[trigger] s@[i],)),
    ensures r <= s@.len(),
        r > 0 ==> call_ensures(pred, (&s@[r as int - 1],), true),
        r < s@.len() ==> call_ensures(pred, (&s@[r as int],), false),
;

/// TRUSTED: `Option::filter`
pub assume_specification<T, P: FnOnce(&T) -> bool>[ Option::<T>::filter::<P> ](o: Option<T>, pred: P) -> (r: Option<T>)
    requires o is Some ==> call_requires(pred, (&o->0,)),
    ensures
        o is None ==> r is None,
        o is Some ==> ((r is Some ==> r == o && call_ensures(pred, (&o->0,), true)) && (r is None ==> call_ensures(pred, (&o->0,), false))),
;

//@ FROM src/version/run.rs :: - :: struct Run
struct Run<T: Ranged>(Vec<T>);
//@ END

impl<T: Ranged> Run<T> {
    /// run invariant (C07): tables sorted and pairwise disjoint, every range non-empty
    spec fn wf(&self) -> bool {
        &&& forall|i: int| 0 <= i < self.0@.len() ==> (#[trigger] self.0@[i]).kr().lo() <= self.0@[i].kr().hi()
        &&& forall|i: int, j: int| 0 <= i < j < self.0@.len() ==> (#[trigger] self.0@[i]).kr().hi() < (#[trigger] self.0@[j]).kr().lo()
    }

//@ FROM src/version/run.rs :: impl < T : Ranged > Run < T > :: fn get_for_key :: OBL C01.3
//@ SUBST `self . partition_point (` ==> `self.0.as_slice().partition_point(`
    fn get_for_key(&self, key: KeyRef) -> /*+*/(r: /*-*/Option<&T>/*+*/)
        requires self.wf(),
        ensures
            match r {
                Some(t) => exists|i: int| 0 <= i < self.0@.len() && self.0@[i] == *t && t.kr().has(key.rank()),
                None => forall|i: int| 0 <= i < self.0@.len() ==> !(#[trigger] self.0@[i]).kr().has(key.rank()),
            }/*-*/
    {
        let idx = self.0.as_slice().partition_point(|x/*+*/: &T/*-*/| /*+*/-> (b: bool) ensures b == (x.kr().hi() < key.rank()) {/*-*/ x.key_range().max() < &key /*+*/}/*-*/);

        self.0.get(idx).filter(|x/*+*/: &&T/*-*/| /*+*/-> (b: bool) ensures b == (x.kr().lo() <= key.rank()) {/*-*/ x.key_range().min() <= &key /*+*/}/*-*/)
    }
//@ END

//@ FROM src/version/run.rs :: impl < T : Ranged > Run < T > :: fn range_overlap_indexes :: OBL C03.3
//@ SUBST `< K : AsRef < [ u8 ] > , R : RangeBounds < K > >` ==> ``
//@ SUBST `& R` ==> `&RangeB`
//@ SUBST `level . partition_point (` ==> `level.as_slice().partition_point(`
//@ SUBST `& level [ lo .. ]` ==> `vstd::slice::slice_subrange(level.as_slice(), lo, level.len())`
    fn range_overlap_indexes(
        &self,
        key_range: &RangeB,
    ) -> /*+*/(r: /*-*/Option<(usize, usize)>/*+*/)
        requires self.wf(),
        ensures
            match r {
                None => forall|i: int, k: int| 0 <= i < self.0@.len() && (#[trigger] self.0@[i]).kr().has(k) ==> !#[trigger] key_range.has(k),
                Some((lo, hi)) => lo <= hi < self.0@.len()
                    && forall|i: int, k: int| 0 <= i < self.0@.len() && (#[trigger] self.0@[i]).kr().has(k) && #[trigger] key_range.has(k) ==> lo <= i <= hi,
            }/*-*/
    {
        let level = &self.0;

        let lo = match key_range.start_bound() {
            Bound::Unbounded => 0,
            Bound::Included(start_key) => {
                level.as_slice().partition_point(|x/*+*/: &T/*-*/| /*+*/-> (b: bool) ensures b == (x.kr().hi() < start_key.rank()) {/*-*/ x.key_range().max() < start_key /*+*/}/*-*/)
            }
            Bound::Excluded(start_key) => {
                level.as_slice().partition_point(|x/*+*/: &T/*-*/| /*+*/-> (b: bool) ensures b == (x.kr().hi() <= start_key.rank()) {/*-*/ x.key_range().max() <= start_key /*+*/}/*-*/)
            }
        };

        if lo >= level.len() {
            return None;
        }

        // NOTE: We check for level length above
        let truncated_level = vstd::slice::slice_subrange(level.as_slice(), lo, level.len());

        let hi = match key_range.end_bound() {
            Bound::Unbounded => level.len() - 1,
            Bound::Included(end_key) => {
                // IMPORTANT: We need to add back `lo` because we sliced it off
                let idx = lo + truncated_level.partition_point(|x/*+*/: &T/*-*/| /*+*/-> (b: bool) ensures b == (x.kr().lo() <= end_key.rank()) {/*-*/ x.key_range().min() <= end_key /*+*/}/*-*/);

                if idx == 0 {
                    return None;
                }

                idx.saturating_sub(1) // To avoid underflow
            }
            Bound::Excluded(end_key) => {
                // IMPORTANT: We need to add back `lo` because we sliced it off
                let idx = lo + truncated_level.partition_point(|x/*+*/: &T/*-*/| /*+*/-> (b: bool) ensures b == (x.kr().lo() < end_key.rank()) {/*-*/ x.key_range().min() < end_key /*+*/}/*-*/);

                if idx == 0 {
                    return None;
                }

                idx.saturating_sub(1) // To avoid underflow
            }
        };

        if lo > hi {
            return None;
        }

        Some((lo, hi))
    }
//@ END
}

// ------------------------------------------------------------------ src/compaction/drop_range.rs, src/tree/mod.rs
use Bound::{Excluded, Included, Unbounded};

//@ FROM src/compaction/drop_range.rs :: - :: struct OwnedBounds
struct OwnedBounds {
    start: Bound<Key>,
    end: Bound<Key>,
}
//@ END

impl OwnedBounds {
    spec fn has(&self, k: int) -> bool { above(self.start, k) && below(self.end, k) }

//@ FROM src/compaction/drop_range.rs :: impl OwnedBounds :: fn contains :: OBL C15.1
    fn contains(&self, range: &KeyRange) -> /*+*/(r: /*-*/bool/*+*/)
        requires range.wf(),
        ensures r ==> forall|k: int| range.has(k) ==> self.has(k),      // C15.1: a table is dropped only if every key it may hold is in R
                r == (self.has(range.lo()) && self.has(range.hi()))/*-*/
    {
        let lower_ok = match &self.start {
            Bound::Unbounded => true,
            Bound::Included(key) => key.as_ref() <= range.min().as_ref(),
            Bound::Excluded(key) => key.as_ref() < range.min().as_ref(),
        };

        if !lower_ok {
            return false;
        }

        match &self.end {
            Bound::Unbounded => true,
            Bound::Included(key) => key.as_ref() >= range.max().as_ref(),
            Bound::Excluded(key) => key.as_ref() > range.max().as_ref(),
        }
    }
//@ END
}

//@ FROM src/tree/mod.rs :: impl Tree :: fn range_bounds_to_owned_bounds :: OBL C15.2
//@ SUBST `< K : AsRef < [ u8 ] > , R : RangeBounds < K > >` ==> ``
//@ SUBST `& R` ==> `&RangeB`
//@ SUBST `use Bound :: { Excluded , Included , Unbounded } ;` ==> ``
fn range_bounds_to_owned_bounds(
    range: &RangeB,
) -> /*+*/(r: /*-*/(OwnedBounds, bool)/*+*/)
    ensures
        // C15.2: the owned bounds admit exactly the keys the caller's range admits
        forall|k: int| r.0.has(k) == #[trigger] range.has(k)/*-*/
{
    let start = match range.start_bound() {
        Included(key) => Included(Key::from(key.as_ref())),
        Excluded(key) => Excluded(Key::from(key.as_ref())),
        Unbounded => Unbounded,
    };

    let end = match range.end_bound() {
        Included(key) => Included(Key::from(key.as_ref())),
        Excluded(key) => Excluded(Key::from(key.as_ref())),
        Unbounded => Unbounded,
    };

    let is_empty =
        if let (Included(lo) | Excluded(lo), Included(hi) | Excluded(hi)) = (&start, &end) {
            lo.as_ref() > hi.as_ref()
        } else {
            false
        };

    (OwnedBounds { start, end }, is_empty)
}
//@ END

} // verus!
fn main() {}
