//@ UNIT read_path
// read-path lookup order.  Obligations: C01.2, C13.1
use vstd::prelude::*;
use vstd::std_specs::iter::*;
verus! {

pub type SeqNo = u64;

// ---------------- prelude: entries, sources ----------------
#[derive(Copy, Clone, PartialEq, Eq, Structural)]
pub enum ValueType { Value, Tombstone, WeakTombstone, Indirection }
impl ValueType {
    pub fn is_tombstone(self) -> (r: bool) ensures r == (self == ValueType::Tombstone || self == ValueType::WeakTombstone)
    { self == Self::Tombstone || self == Self::WeakTombstone }
}
pub struct InternalKey { pub seqno: SeqNo, pub value_type: ValueType }
impl InternalKey { pub fn is_tombstone(&self) -> (r: bool) ensures r == (self.value_type == ValueType::Tombstone || self.value_type == ValueType::WeakTombstone) { self.value_type.is_tombstone() } }
pub struct InternalValue { pub key: InternalKey, pub vid: u64 }
impl InternalValue { pub fn is_tombstone(&self) -> (r: bool) ensures r == (self.key.value_type == ValueType::Tombstone || self.key.value_type == ValueType::WeakTombstone) { self.key.is_tombstone() } }
#[verifier::external_body] pub struct Error { p: u8 }
#[verifier::external_body] pub struct KeyBytes { p: u8 }   // stands for &[u8]

/// contract MEM_GET / TABLE_GET: what a source answers for (key, seqno) is a function of the source
pub struct Memtable { pub id: u64 }
impl Memtable {
    pub uninterp spec fn answer(&self, key: &KeyBytes, seqno: SeqNo) -> Option<InternalValue>;
    #[verifier::external_body]
    pub fn get(&self, key: &KeyBytes, seqno: SeqNo) -> (r: Option<InternalValue>) ensures r == self.answer(key, seqno) { unimplemented!() }
}
pub struct Table { pub id: u64 }
impl Table {
    pub uninterp spec fn answer(&self, key: &KeyBytes, seqno: SeqNo) -> Result<Option<InternalValue>, Error>;
    #[verifier::external_body]
    pub fn get(&self, key: &KeyBytes, seqno: SeqNo, key_hash: u64) -> (r: Result<Option<InternalValue>, Error>) ensures r == self.answer(key, seqno) { unimplemented!() }
}
pub struct Run { pub tables: Vec<Table> }
impl Run {
    /// contract of Run::get_for_key (proved separately, C01.3): a function of (run, key)
    pub uninterp spec fn pick(&self, key: &KeyBytes) -> Option<int>;
    #[verifier::external_body]
    pub fn get_for_key(&self, key: &KeyBytes) -> (r: Option<&Table>)
        ensures match self.pick(key) { Some(i) => 0 <= i < self.tables@.len() && r == Some(&self.tables@[i]), None => r is None }
    { unimplemented!() }
}
pub struct Level { pub runs: Vec<Run> }
pub struct Version { pub levels: Vec<Level> }
pub struct SealedMemtables { pub v: Vec<Memtable> }
pub struct SuperVersion { pub active_memtable: Memtable, pub sealed_memtables: SealedMemtables, pub version: Version }

// ---------------- prelude: iterators over ghost sequences ----------------
#[verifier::external_body]
#[verifier::reject_recursive_types(T)]
pub struct SeqIter<T> { v: Vec<T> }
impl<T> SeqIter<T> { pub uninterp spec fn rest(&self) -> Seq<T>; }
impl<T> Iterator for SeqIter<T> {
    type Item = T;
    #[verifier::external_body]
    fn next(&mut self) -> (r: Option<T>) { unimplemented!() }
}
impl<T> IteratorSpecImpl for SeqIter<T> {
    open spec fn obeys_prophetic_iter_laws(&self) -> bool { true }
    open spec fn remaining(&self) -> Seq<T> { self.rest() }
    open spec fn will_return_none(&self) -> bool { true }
    open spec fn decrease(&self) -> Option<nat> { Some(self.rest().len()) }
    open spec fn peek(&self, i: int) -> Option<T> { if 0 <= i < self.rest().len() { Some(self.rest()[i]) } else { None } }
}


impl SealedMemtables {
    #[verifier::external_body]
    pub fn iter(&self) -> (r: SeqIter<&Memtable>)
        ensures r.rest().len() == self.v@.len(), forall|i: int| 0 <= i < self.v@.len() ==> *(#[trigger] r.rest()[i]) == self.v@[i]
    { unimplemented!() }
}
impl<'a> SeqIter<&'a Memtable> {
    #[verifier::external_body]
    pub fn rev(self) -> (r: SeqIter<&'a Memtable>)
        ensures r.rest().len() == self.rest().len(), forall|i: int| 0 <= i < self.rest().len() ==> #[trigger] r.rest()[i] == self.rest()[self.rest().len() - 1 - i]
    { unimplemented!() }
}

/// flattened consultation order of the tables for `key`: levels in order, runs in order, the run's pick
pub open spec fn run_seq(levels: Seq<Level>) -> Seq<Run>
    decreases levels.len()
{ if levels.len() == 0 { Seq::empty() } else { run_seq(levels.drop_last()) + levels.last().runs@ } }

pub open spec fn table_seq(runs: Seq<Run>, key: &KeyBytes) -> Seq<Table>
    decreases runs.len()
{
    if runs.len() == 0 { Seq::empty() } else {
        let p = table_seq(runs.drop_last(), key);
        match runs.last().pick(key) { Some(i) => p.push(runs.last().tables@[i]), None => p }
    }
}

impl Level {
    #[verifier::external_body]
    pub fn iter(&self) -> (r: SeqIter<&Run>)
        ensures r.rest().len() == self.runs@.len(), forall|i: int| 0 <= i < self.runs@.len() ==> *(#[trigger] r.rest()[i]) == self.runs@[i]
    { unimplemented!() }
}
impl Version {
    #[verifier::external_body]
    pub fn iter_levels(&self) -> (r: SeqIter<&Level>)
        ensures r.rest().len() == self.levels@.len(), forall|i: int| 0 <= i < self.levels@.len() ==> *(#[trigger] r.rest()[i]) == self.levels@[i],
            deref_levels(r.rest()) == self.levels@,
    { unimplemented!() }
}
pub open spec fn deref_levels(s: Seq<&Level>) -> Seq<Level> { Seq::new(s.len(), |i: int| *s[i]) }
pub open spec fn deref_runs(s: Seq<&Run>) -> Seq<Run> { Seq::new(s.len(), |i: int| *s[i]) }

impl<'a> SeqIter<&'a Level> {
    /// std `flat_map` at this use: the closure must yield exactly the level's runs
    #[verifier::external_body]
    pub fn flat_map<F: FnMut(&'a Level) -> SeqIter<&'a Run>>(self, f: F) -> (r: SeqIter<&'a Run>)
        requires
            forall|l: &'a Level| call_requires(f, (l,)),
            forall|l: &'a Level, it: SeqIter<&'a Run>| call_ensures(f, (l,), it) ==> it.rest().len() == l.runs@.len() && forall|i: int| 0 <= i < l.runs@.len() ==> *(#[trigger] it.rest()[i]) == l.runs@[i],
        ensures
            r.rest().len() == run_seq(deref_levels(self.rest())).len(),
            forall|i: int| 0 <= i < r.rest().len() ==> *(#[trigger] r.rest()[i]) == run_seq(deref_levels(self.rest()))[i],
            deref_runs(r.rest()) == run_seq(deref_levels(self.rest())),
    { unimplemented!() }
}
impl<'a> SeqIter<&'a Run> {
    /// std `filter_map` at this use: the closure must be the run's `get_for_key` for a fixed key
    #[verifier::external_body]
    pub fn filter_map<F: FnMut(&'a Run) -> Option<&'a Table>>(self, f: F, ) -> (r: SeqIter<&'a Table>)
        requires forall|x: &'a Run| call_requires(f, (x,)),
        ensures
            forall|key: &KeyBytes| #![trigger table_seq(deref_runs(self.rest()), key)]
                (forall|x: &'a Run, o: Option<&'a Table>| #[trigger] call_ensures(f, (x,), o) ==>
                    (match x.pick(key) { Some(i) => o is Some && *o->0 == x.tables@[i], None => o is None }))
                ==> r.rest().len() == table_seq(deref_runs(self.rest()), key).len()
                    && forall|i: int| 0 <= i < r.rest().len() ==> *(#[trigger] r.rest()[i]) == table_seq(deref_runs(self.rest()), key)[i],
    { unimplemented!() }
}

pub mod standard_bloom { pub struct Builder; impl Builder { #[verifier::external_body] pub fn get_hash(key: &super::KeyBytes) -> u64 { 0 } } }

// ---------------- specification of the lookup ----------------
/// first answer among the tables in consultation order; an error stops the search
pub open spec fn tables_answer(ts: Seq<Table>, key: &KeyBytes, seqno: SeqNo) -> Result<Option<InternalValue>, Error>
    decreases ts.len()
{
    if ts.len() == 0 { Ok(None) } else {
        match ts[0].answer(key, seqno) {
            Err(e) => Err(e),
            Ok(Some(v)) => Ok(Some(v)),
            Ok(None) => tables_answer(ts.skip(1), key, seqno),
        }
    }
}
/// first answer among sealed memtables, newest (= last) first
pub open spec fn sealed_answer(ms: Seq<Memtable>, key: &KeyBytes, seqno: SeqNo) -> Option<InternalValue>
    decreases ms.len()
{
    if ms.len() == 0 { None } else {
        match ms.last().answer(key, seqno) { Some(v) => Some(v), None => sealed_answer(ms.drop_last(), key, seqno) }
    }
}
pub open spec fn undead(o: Option<InternalValue>) -> Option<InternalValue> {
    match o { Some(v) => if v.key.value_type == ValueType::Tombstone || v.key.value_type == ValueType::WeakTombstone { None } else { Some(v) }, None => None }
}

// ---------------- near-verbatim from /repo/src/tree/mod.rs ----------------
//@ FROM src/tree/mod.rs :: - :: fn ignore_tombstone_value :: OBL C01.2, C13.1
fn ignore_tombstone_value(item: InternalValue) -> /*+*/(r:/*-*/ Option<InternalValue>/*+*/)
    ensures r == undead(Some(item))/*-*/
{
    if item.is_tombstone() {
        None
    } else {
        Some(item)
    }
}
//@ END

pub struct Tree;
impl Tree {
//@ FROM src/tree/mod.rs :: impl Tree :: fn get_internal_entry_from_sealed_memtables :: OBL C01.2
//@ SUBST `& [ u8 ]` ==> `&KeyBytes`
    fn get_internal_entry_from_sealed_memtables(
        super_version: &SuperVersion,
        key: &KeyBytes,
        seqno: SeqNo,
    ) -> /*+*/(r:/*-*/ Option<InternalValue>/*+*/)
        ensures r == sealed_answer(super_version.sealed_memtables.v@, key, seqno)/*-*/
    {
        /*+*/let ghost ms = super_version.sealed_memtables.v@;
        proof { assert(ms.take(ms.len() as int) =~= ms); }/*-*/
        for mt in /*+*/it:/*-*/ super_version.sealed_memtables.iter().rev()
            /*+*/invariant
                ms == super_version.sealed_memtables.v@,
                it.seq().len() == ms.len(),
                forall|i: int| 0 <= i < ms.len() ==> *(#[trigger] it.seq()[i]) == ms[ms.len() - 1 - i],
                sealed_answer(ms, key, seqno) == sealed_answer(ms.take(ms.len() - it.index@), key, seqno),/*-*/
        {
            /*+*/proof {
                let k = ms.len() - it.index@;
                assert(*mt == ms[k - 1]);
                assert(ms.take(k).last() == ms[k - 1]);
                assert(ms.take(k).drop_last() =~= ms.take(k - 1));
                assert(sealed_answer(ms.take(k), key, seqno) == (match ms[k - 1].answer(key, seqno) { Some(v) => Some(v), None => sealed_answer(ms.take(k - 1), key, seqno) }));
            }/*-*/
            if let Some(entry) = mt.get(key, seqno) {
                /*+*/proof {
                    let k = ms.len() - it.index@;
                    assert(mt.answer(key, seqno) == Some(entry));
                    assert(ms[k - 1].answer(key, seqno) == Some(entry));
                    assert(sealed_answer(ms.take(k), key, seqno) == Some(entry));
                    assert(sealed_answer(ms, key, seqno) == Some(entry));
                }/*-*/
                return Some(entry);
            }
        }

        None
    }
//@ END

//@ FROM src/tree/mod.rs :: impl Tree :: fn get_internal_entry_from_tables :: OBL C01.2
//@ SUBST `& [ u8 ]` ==> `&KeyBytes`
//@ SUBST `crate :: Result < Option < InternalValue > >` ==> `Result<Option<InternalValue>, Error>`
//@ SUBST `crate :: table :: filter :: standard_bloom` ==> `standard_bloom`
    fn get_internal_entry_from_tables(
        version: &Version,
        key: &KeyBytes,
        seqno: SeqNo,
    ) -> /*+*/(r:/*-*/ Result<Option<InternalValue>, Error>/*+*/)
        ensures r == lift(tables_answer(table_seq(run_seq(version.levels@), key), key, seqno))/*-*/
    {
        // NOTE: Create key hash for hash sharing
        // https://fjall-rs.github.io/post/bloom-filter-hash-sharing/
        let key_hash = standard_bloom::Builder::get_hash(key);

        /*+*/let ghost ts = table_seq(run_seq(version.levels@), key);
        proof { assert(ts.skip(0) =~= ts); assert(deref_levels_eq(version)); }/*-*/
        for table in /*+*/it:/*-*/ version
            .iter_levels()
            .flat_map(|lvl/*+*/: &Level| -> (o: SeqIter<&Run>) ensures o.rest().len() == lvl.runs@.len() && forall|i: int/*-*/| /*+*/0 <= i < lvl.runs@.len() ==> *(#[trigger] o.rest()[i]) == lvl.runs@[i] {/*-*/ lvl.iter() /*+*/}/*-*/)
            .filter_map(|run/*+*/: &Run/*-*/| /*+*/-> (o: Option<&Table>) ensures (match run.pick(key) { Some(i) => o is Some && *o->0 == run.tables@[i], None => o is None }) {/*-*/ run.get_for_key(key) /*+*/})
            invariant
                ts == table_seq(run_seq(version.levels@), key),
                it.seq().len() == ts.len(),
                forall|i: int| 0 <= i < ts.len() ==> *(#[trigger] it.seq()[i]) == ts[i],
                tables_answer(ts, key, seqno) == tables_answer(ts.skip(it.index@), key, seqno/*-*/)/*+*/,/*-*/
        {
            /*+*/proof {
                let k = it.index@;
                assert(ts.skip(k)[0] == ts[k]);
                assert(ts.skip(k).skip(1) =~= ts.skip(k + 1));
                assert(*table == ts[k]);
            }/*-*/
            if let Some(item) = table.get(key, seqno, key_hash)? {
                return Ok(ignore_tombstone_value(item));
            }
        }

        /*+*/proof { assert(ts.skip(ts.len() as int) =~= Seq::<Table>::empty()); }/*-*/
        Ok(None)
    }
//@ END

//@ FROM src/tree/mod.rs :: impl Tree :: fn get_internal_entry_from_version :: OBL C01.2
//@ SUBST `& [ u8 ]` ==> `&KeyBytes`
//@ SUBST `crate :: Result < Option < InternalValue > >` ==> `Result<Option<InternalValue>, Error>`
    fn get_internal_entry_from_version(
        super_version: &SuperVersion,
        key: &KeyBytes,
        seqno: SeqNo,
    ) -> /*+*/(r:/*-*/ Result<Option<InternalValue>, Error>/*+*/)
        ensures
            // C01.2: active memtable, then sealed newest-first, then tables in level / run order; dead => None
            r == (match super_version.active_memtable.answer(key, seqno) {
                Some(v) => Ok::<Option<InternalValue>, Error>(undead(Some(v))),
                None => match sealed_answer(super_version.sealed_memtables.v@, key, seqno) {
                    Some(v) => Ok(undead(Some(v))),
                    None => lift(tables_answer(table_seq(run_seq(super_version.version.levels@), key), key, seqno)),
                },
            })/*-*/
    {
        if let Some(entry) = super_version.active_memtable.get(key, seqno) {
            return Ok(ignore_tombstone_value(entry));
        }

        // Now look in sealed memtables
        if let Some(entry) =
            Self::get_internal_entry_from_sealed_memtables(super_version, key, seqno)
        {
            return Ok(ignore_tombstone_value(entry));
        }

        // Now look in tables... this may involve disk I/O
        Self::get_internal_entry_from_tables(&super_version.version, key, seqno)
    }
//@ END
}

pub open spec fn lift(a: Result<Option<InternalValue>, Error>) -> Result<Option<InternalValue>, Error> {
    match a { Err(e) => Err(e), Ok(o) => Ok(undead(o)) }
}
pub open spec fn deref_levels_eq(version: &Version) -> bool { true }

} // verus!
fn main() {}
