//@ UNIT recover
// version::recovery::{recover, get_current_version}: the version file is only accepted after its bytes
// were compared with the checksum recorded in `current`.  Obligation: C10.5
use vstd::prelude::*;
verus! {

global size_of usize == 8;

pub type VersionId = u64;
pub type TableId = u64;
pub type BlobFileId = u64;
pub type SeqNo = u64;

// ---------------- prelude: errors, paths, file contents (TRUSTED) ----------------
pub enum Error { Io, Unrecoverable, InvalidTag((&'static str, u8)), InvalidHeader(&'static str), ChecksumMismatch { got: Checksum, expected: Checksum } }
#[verifier::external_body] pub struct Path { p: u8 }
#[verifier::external_body] pub struct PathBuf { p: u8 }
pub struct VersionFileName { pub id: u64 }
/// stands for `format!("v{id}")` (R12)
pub fn version_file_name(id: u64) -> (r: VersionFileName) ensures r.id == id { VersionFileName { id } }

/// ghost view of the directory: what `current` records and what the version files contain
pub uninterp spec fn current_id(folder: &Path) -> u64;
pub uninterp spec fn current_checksum(folder: &Path) -> u128;
pub uninterp spec fn current_checksum_type(folder: &Path) -> u8;
pub uninterp spec fn file_content(folder: &Path, id: u64) -> Seq<u8>;
/// xxh3-128 as a mathematical function of the bytes (collision-freeness is NOT assumed here; C10 assumes it)
pub uninterp spec fn hash128(b: Seq<u8>) -> u128;

impl Path {
    #[verifier::external_body]
    pub fn join(&self, name: VersionFileName) -> (r: PathBuf) ensures r.names(self, name.id) { unimplemented!() }
}
impl PathBuf { pub uninterp spec fn names(&self, folder: &Path, id: u64) -> bool; }

/// stands for std::fs::read: returns the bytes of the file the path names
#[verifier::external_body]
pub fn fs_read(path: &PathBuf) -> (r: Result<Vec<u8>, Error>)
    ensures r is Ok ==> forall|folder: &Path, id: u64| path.names(folder, id) ==> r->Ok_0@ == #[trigger] file_content(folder, id)
{ unimplemented!() }
/// stands for crate::hash::hash128 (xxh3)
#[verifier::external_body]
pub fn hash128_exec(b: &Vec<u8>) -> (r: u128) ensures r == hash128(b@) { unimplemented!() }

/// stands for File::open(folder.join("current")) + byteorder reads: id (u64), checksum (u128), checksum type (u8), in this order
pub struct CurrentFile { pub ghost folder: &'static Path, pub ghost pos: int }
impl CurrentFile {
    #[verifier::external_body]
    pub fn open(folder: &Path) -> (r: Result<CurrentFile, Error>) ensures r is Ok ==> r->Ok_0.pos == 0 && *r->Ok_0.folder == *folder { unimplemented!() }
    #[verifier::external_body]
    pub fn read_u64_le(&mut self) -> (r: Result<u64, Error>)
        ensures final(self).folder == old(self).folder, final(self).pos == old(self).pos + 8, r is Ok && old(self).pos == 0 ==> r->Ok_0 == current_id(old(self).folder) { unimplemented!() }
    #[verifier::external_body]
    pub fn read_u128_le(&mut self) -> (r: Result<u128, Error>)
        ensures final(self).folder == old(self).folder, final(self).pos == old(self).pos + 16, r is Ok && old(self).pos == 8 ==> r->Ok_0 == current_checksum(old(self).folder) { unimplemented!() }
    #[verifier::external_body]
    pub fn read_u8(&mut self) -> (r: Result<u8, Error>)
        ensures final(self).folder == old(self).folder, final(self).pos == old(self).pos + 1, r is Ok && old(self).pos == 24 ==> r->Ok_0 == current_checksum_type(old(self).folder) { unimplemented!() }
}

//@ SUBST `crate :: Error` ==> `Error`

//@ FROM src/checksum.rs :: - :: struct Checksum
/*+*/#[derive(Copy, Clone, PartialEq, Eq, Structural)]/*-*/
struct Checksum(u128);
//@ END
impl Checksum {
//@ FROM src/checksum.rs :: impl Checksum :: fn from_raw :: OBL C10.5
    fn from_raw(value: u128) -> /*+*/(r: /*-*/Self/*+*/) ensures r.0 == value/*-*/ {
        Self(value)
    }
//@ END
//@ FROM src/checksum.rs :: impl Checksum :: fn check :: OBL C10.5
//@ SUBST `crate :: Result < ( ) >` ==> `Result<(), Error>`
    fn check(&self, expected: Self) -> /*+*/(r: /*-*/Result<(), Error>/*+*/)
        ensures r is Ok ==> self.0 == expected.0/*-*/
    {
        if self.0 == expected.0 {
            Ok(())
        } else {
            Err(Error::ChecksumMismatch {
                expected,
                got: *self,
            })
        }
    }
//@ END
}

// ---------------- prelude: sfa reader (external crate), sections are opaque byte sources ----------------
#[verifier::external_body] pub struct SfaReader { p: u8 }
#[verifier::external_body] pub struct Toc { p: u8 }
#[verifier::external_body] pub struct TocEntry { p: u8 }
#[verifier::external_body] pub struct SectionReader { p: u8 }
pub enum SectionName { Tables, BlobFiles, BlobGcStats, TreeType }
impl SfaReader {
    #[verifier::external_body] pub fn new(path: &PathBuf) -> (r: Result<SfaReader, Error>) { unimplemented!() }
    #[verifier::external_body] pub fn toc(&self) -> (r: &Toc) { unimplemented!() }
}
impl Toc { #[verifier::external_body] pub fn section(&self, name: SectionName) -> (r: Option<&TocEntry>) { unimplemented!() } }
impl TocEntry { #[verifier::external_body] pub fn buf_reader(&self, path: &PathBuf) -> (r: Result<SectionReader, Error>) { unimplemented!() } }
impl SectionReader {
    #[verifier::external_body] pub fn read_u8(&mut self) -> (r: Result<u8, Error>) { unimplemented!() }
    #[verifier::external_body] pub fn read_u32_le(&mut self) -> (r: Result<u32, Error>) { unimplemented!() }
    #[verifier::external_body] pub fn read_u64_le(&mut self) -> (r: Result<u64, Error>) { unimplemented!() }
    #[verifier::external_body] pub fn read_u128_le(&mut self) -> (r: Result<u128, Error>) { unimplemented!() }
}
pub enum TreeType { Standard, Blob }
/// stands for TreeType::try_from(byte).map_err(..InvalidHeader("TreeType"))
#[verifier::external_body] pub fn tree_type_from(byte: u8) -> (r: Result<TreeType, Error>) { unimplemented!() }
pub struct FragmentationMap { pub p: u8 }
impl FragmentationMap { #[verifier::external_body] pub fn decode_from(reader: &mut SectionReader) -> (r: Result<FragmentationMap, Error>) { unimplemented!() } }
#[verifier::external_body] pub fn sort_by_id(v: &mut Vec<(BlobFileId, Checksum)>) { }

//@ FROM src/version/recovery.rs :: - :: struct RecoveredTable
struct RecoveredTable {
    id: TableId,
    checksum: Checksum,
    global_seqno: SeqNo,
}
//@ END

//@ FROM src/version/recovery.rs :: - :: struct Recovery
//@ SUBST `crate :: blob_tree :: FragmentationMap` ==> `FragmentationMap`
struct Recovery {
    tree_type: TreeType,
    curr_version_id: VersionId,
    table_ids: Vec<Vec<Vec<RecoveredTable>>>,
    blob_file_ids: Vec<(BlobFileId, Checksum)>,
    gc_stats: FragmentationMap,
}
//@ END

//@ FROM src/version/recovery.rs :: - :: fn get_current_version :: OBL C10.5
//@ SUBST `folder : & std :: path :: Path` ==> `folder: &Path`
//@ SUBST `crate :: Result < ( VersionId , Checksum ) >` ==> `Result<(VersionId, Checksum), Error>`
//@ SUBST `use byteorder :: { LittleEndian , ReadBytesExt } ;` ==> ``
//@ SUBST `std :: fs :: File :: open ( folder . join ( CURRENT_VERSION_FILE ) )` ==> `CurrentFile::open(folder)`
//@ SUBST `read_u64 :: < LittleEndian >` ==> `read_u64_le`
//@ SUBST `read_u128 :: < LittleEndian >` ==> `read_u128_le`
fn get_current_version(folder: &Path) -> /*+*/(r: /*-*/Result<(VersionId, Checksum), Error>/*+*/)
    ensures r is Ok ==> r->Ok_0.0 == current_id(folder) && r->Ok_0.1.0 == current_checksum(folder) && current_checksum_type(folder) == 0/*-*/
{
    let mut f = CurrentFile::open(folder)?;

    let id = f.read_u64_le()?;
    let checksum = f.read_u128_le()?;
    let checksum_type = f.read_u8()?;

    if checksum_type != 0 {
        return Err(Error::InvalidTag(("ChecksumType", checksum_type)));
    }

    Ok((id, Checksum::from_raw(checksum)))
}
//@ END

//@ FROM src/version/recovery.rs :: - :: fn recover :: OBL C10.5
//@ SUBST `crate :: Result < Recovery >` ==> `Result<Recovery, Error>`
//@ SUBST `format ! ( "v{curr_version_id}" )` ==> `version_file_name(curr_version_id)`
//@ SUBST `std :: fs :: read` ==> `fs_read`
//@ SUBST `crate :: hash :: hash128` ==> `hash128_exec`
//@ SUBST `. inspect_err ( | _ | { } )` ==> ``
//@ SUBST `sfa :: Reader :: new` ==> `SfaReader::new`
//@ SUBST `b"tables"` ==> `SectionName::Tables`
//@ SUBST `b"blob_files"` ==> `SectionName::BlobFiles`
//@ SUBST `b"blob_gc_stats"` ==> `SectionName::BlobGcStats`
//@ SUBST `b"tree_type"` ==> `SectionName::TreeType`
//@ SUBST `read_u32 :: < LittleEndian >` ==> `read_u32_le`
//@ SUBST `read_u64 :: < LittleEndian >` ==> `read_u64_le`
//@ SUBST `read_u128 :: < LittleEndian >` ==> `read_u128_le`
//@ SUBST `blob_file_ids . sort_by_key ( | ( id , _ ) | * id )` ==> `sort_by_id(&mut blob_file_ids)`
//@ SUBST `debug_assert ! ( blob_file_ids . is_sorted_by_key ( | ( id , _ ) | id ) ) ;` ==> ``
//@ SUBST `crate :: blob_tree :: FragmentationMap` ==> `FragmentationMap`
//@ SUBST `TreeType :: try_from ( byte ) . map_err ( | ( ) | Error :: InvalidHeader ( "TreeType" ) )` ==> `tree_type_from(byte)`
fn recover(folder: &Path) -> /*+*/(r: /*-*/Result<Recovery, Error>/*+*/)
    ensures
        // C10.5: a version file is only ever accepted after its bytes were compared with the checksum recorded in `current`
        r is Ok ==> hash128(file_content(folder, current_id(folder))) == current_checksum(folder),/*-*/
{
    let (curr_version_id, expected_checksum) = get_current_version(folder)?;
    let version_file_path = folder.join(version_file_name(curr_version_id));

    {
        let bytes = fs_read(&version_file_path)?;

        Checksum::from_raw(hash128_exec(&bytes))
            .check(expected_checksum)?;
    }

    let reader = SfaReader::new(&version_file_path)?;
    let toc = reader.toc();

    let mut levels = vec![];

    {
        let mut reader = toc
            .section(SectionName::Tables)
            .ok_or(Error::Unrecoverable)?
            .buf_reader(&version_file_path)?;

        let level_count = reader.read_u8()?;

        for _ in 0..level_count {
            let mut level = vec![];
            let run_count = reader.read_u8()?;

            for _ in 0..run_count {
                let mut run = vec![];
                let table_count = reader.read_u32_le()?;

                for _ in 0..table_count {
                    let id = reader.read_u64_le()?;
                    let checksum_type = reader.read_u8()?;

                    if checksum_type != 0 {
                        return Err(Error::InvalidTag(("ChecksumType", checksum_type)));
                    }

                    let checksum = reader.read_u128_le()?;
                    let checksum = Checksum::from_raw(checksum);

                    let global_seqno = reader.read_u64_le()?;

                    run.push(RecoveredTable {
                        id,
                        checksum,
                        global_seqno,
                    });
                }

                level.push(run);
            }

            levels.push(level);
        }
    }

    let blob_file_ids = {
        let mut reader = toc
            .section(SectionName::BlobFiles)
            .ok_or(Error::Unrecoverable)?
            .buf_reader(&version_file_path)?;

        let blob_file_count = reader.read_u32_le()?;
        let mut blob_file_ids = Vec::with_capacity(blob_file_count as usize);

        for _ in 0..blob_file_count {
            let id = reader.read_u64_le()?;

            let checksum_type = reader.read_u8()?;

            if checksum_type != 0 {
                return Err(Error::InvalidTag(("ChecksumType", checksum_type)));
            }

            let checksum = reader.read_u128_le()?;
            let checksum = Checksum::from_raw(checksum);

            blob_file_ids.push((id, checksum));
        }

        sort_by_id(&mut blob_file_ids);
        blob_file_ids
    };

    let gc_stats = {
        let mut reader = toc
            .section(SectionName::BlobGcStats)
            .ok_or(Error::Unrecoverable)?
            .buf_reader(&version_file_path)?;

        FragmentationMap::decode_from(&mut reader)?
    };

    Ok(Recovery {
        tree_type: {
            let byte = toc.section(SectionName::TreeType).ok_or(Error::Unrecoverable)?
            .buf_reader(
                &version_file_path
            )?
            .read_u8()?;

            tree_type_from(byte)?
        },
        curr_version_id,
        table_ids: levels,
        blob_file_ids,
        gc_stats,
    })
}
//@ END

} // verus!
fn main() {}
