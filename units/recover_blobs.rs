//@ UNIT recover_blobs
// vlog::recover_blob_files (src/vlog/mod.rs, whole function): at reopen every blob file named by the version file is recovered
// under its id with the recorded checksum and this tree's id, a missing one makes the open fail, and exactly the files the
// version does not name are reported as orphans (they are unlinked by recover_levels after the version is recovered).
// Obligations C04.10, C08.11, C20.7
use vstd::prelude::*;
use vstd::std_specs::iter::*;
use std::sync::Arc;
verus! {

global size_of usize == 8;

type TreeId = u64;
type BlobFileId = u64;

//@ INCLUDE prelude/seqiter.rs

// ---------------- prelude (TRUSTED) ----------------
enum Error { Io, Unrecoverable }
#[verifier::external_body] struct Path { p: u8 }
impl Path { #[verifier::external_body] fn try_exists(&self) -> (r: Result<bool, Error>) { unimplemented!() } }
/// a path; `bid` = the blob file id its file name parses to (ghost, set by the directory model)
struct PathBuf { ghost bid: Option<BlobFileId> }
impl PathBuf {
    #[verifier::external_body] fn is_dir(&self) -> (r: bool) { unimplemented!() }
    #[verifier::external_body] fn clone(&self) -> (r: Self) ensures r == *self { unimplemented!() }
}
#[derive(Copy, Clone, PartialEq, Eq, Structural)] struct Checksum(u128);
#[verifier::external_body] struct File { p: u8 }
impl File { #[verifier::external_body] fn open(p: &PathBuf) -> (r: Result<File, Error>) { unimplemented!() } }
#[verifier::external_body] struct Metadata { p: u8 }
#[verifier::external_body] struct DescriptorTable { p: u8 }
#[verifier::external_body] struct AtomicBool { p: u8 }
impl AtomicBool { #[verifier::external_body] fn new(b: bool) -> (r: Self) { unimplemented!() } }
/// the `let meta = { sfa::Reader::new(path)?; toc.section(b"meta")..; Metadata::from_slice(..)? }` block: reads the blob file's own metadata
#[verifier::external_body] fn read_blob_meta(file: &File, path: &PathBuf) -> (r: Result<Metadata, Error>) { unimplemented!() }
/// `descriptor_table.cloned()`
#[verifier::external_body] fn dt_cloned(dt: Option<&Arc<DescriptorTable>>) -> (r: Option<Arc<DescriptorTable>>) ensures r is Some == dt is Some { unimplemented!() }
/// `ids.iter().find(|(id, _)| id == &blob_file_id)`: the first recorded entry with this id
#[verifier::external_body]
fn find_id(ids: &[(BlobFileId, Checksum)], id: BlobFileId) -> (r: Option<&(BlobFileId, Checksum)>)
    ensures match r { Some(e) => e.0 == id && exists|i: int| 0 <= i < ids@.len() && #[trigger] ids@[i] == *e, None => forall|i: int| 0 <= i < ids@.len() ==> (#[trigger] ids@[i]).0 != id }
{ unimplemented!() }
/// file names (TRUSTED string model)
struct FileName { ghost bid: Option<BlobFileId>, ghost ds_store: bool, ghost apple_double: bool }
struct NameStr { ghost bid: Option<BlobFileId> }
impl FileName {
    #[verifier::external_body] fn is_ds_store(&self) -> (r: bool) ensures r == self.ds_store { unimplemented!() }
    #[verifier::external_body] fn is_apple_double(&self) -> (r: bool) ensures r == self.apple_double { unimplemented!() }
    #[verifier::external_body] fn to_str_checked(&self) -> (r: Result<NameStr, Error>) ensures r is Ok ==> r->Ok_0.bid == self.bid { unimplemented!() }
}
#[verifier::external_body] fn parse_blob_file_id(n: &NameStr) -> (r: Result<BlobFileId, Error>) ensures r is Ok ==> n.bid == Some(r->Ok_0) { unimplemented!() }
struct DirEntry { ghost name: FileName }
impl DirEntry {
    #[verifier::external_body] fn file_name(&self) -> (r: FileName) ensures r == self.name { unimplemented!() }
    #[verifier::external_body] fn path(&self) -> (r: PathBuf) ensures r.bid == self.name.bid { unimplemented!() }
}
#[verifier::external_body] fn read_dir_enumerated(p: &Path) -> (r: Result<SeqIter<(usize, Result<DirEntry, Error>)>, Error>) { unimplemented!() }

//@ FROM src/file_accessor.rs :: - :: enum FileAccessor
enum FileAccessor {
    File(Arc<File>),

    DescriptorTable(Arc<DescriptorTable>),
}
//@ END
//@ FROM src/vlog/blob_file/mod.rs :: - :: struct Inner
struct Inner {
    id: BlobFileId,

    tree_id: TreeId,

    path: PathBuf,

    meta: Metadata,

    is_deleted: AtomicBool,

    checksum: Checksum,

    file_accessor: FileAccessor,
}
//@ END
type BlobFileInner = Inner;
//@ FROM src/vlog/blob_file/mod.rs :: - :: struct BlobFile
struct BlobFile(Arc<Inner>);
//@ END

/// a recovered handle is filed under the id its file name parses to and carries the checksum recorded for that id
spec fn blob_ok(b: BlobFile, ids: Seq<(BlobFileId, Checksum)>, tree_id: TreeId) -> bool {
    b.0.path.bid == Some(b.0.id) && b.0.tree_id == tree_id && exists|i: int| 0 <= i < ids.len() && #[trigger] ids[i] == (b.0.id, b.0.checksum)
}
spec fn named(ids: Seq<(BlobFileId, Checksum)>, id: BlobFileId) -> bool { exists|i: int| 0 <= i < ids.len() && (#[trigger] ids[i]).0 == id }

//@ FROM src/vlog/mod.rs :: - :: fn recover_blob_files :: OBL C04.10, C08.11, C20.7
//@ SUBST `crate :: Error` ==> `Error`
//@ SUBST `crate :: Result < ( Vec < BlobFile > , Vec < PathBuf > ) >` ==> `Result<(Vec<BlobFile>, Vec<PathBuf>), Error>`
//@ SUBST `vec ! [ ]` ==> `Vec::new()`
//@ SUBST `Vec :: with_capacity ( ids . len ( ) )` ==> `Vec::new()`
//@ SUBST `for ( idx , dirent ) in std :: fs :: read_dir ( folder ) ? . enumerate ( ) {` ==> `let mut iter__ = read_dir_enumerated(folder)?; loop { let Some((idx, dirent)) = iter__.next() else { break; };`
//@ SUBST `file_name == ".DS_Store"` ==> `file_name.is_ds_store()`
//@ SUBST `file_name . to_string_lossy ( ) . starts_with ( "._" )` ==> `file_name.is_apple_double()`
//@ SUBST `file_name . to_str ( ) . ok_or_else ( $1 ) ?` ==> `file_name.to_str_checked()?`
//@ SUBST `blob_file_name . parse :: < BlobFileId > ( ) . map_err ( $1 ) ?` ==> `parse_blob_file_id(&blob_file_name)?`
//@ SUBST `assert ! ( ! blob_file_path . is_dir ( ) ) ;` ==> ``
//@ SUBST `if let Some ( & ( _ , checksum ) ) = ids . iter ( ) . find ( $1 ) {` ==> `if let Some(e__) = find_id(ids, blob_file_id) { let checksum = e__.1;`
//@ SUBST `std :: fs :: File :: open` ==> `File::open`
//@ SUBST `let meta = { $1 } ;` ==> `let meta = read_blob_meta(&file, &blob_file_path)?;`
//@ SUBST `descriptor_table . cloned ( )` ==> `dt_cloned(descriptor_table)`
fn recover_blob_files(
    folder: &Path,
    ids: &[(BlobFileId, Checksum)],
    tree_id: TreeId,
    descriptor_table: Option<&Arc<DescriptorTable>>,
) -> /*+*/(r:/*-*/ Result<(Vec<BlobFile>, Vec<PathBuf>), Error>/*+*/)
    ensures r is Ok ==> ({ let (blobs, orphans) = r->Ok_0;
        (forall|i: int| 0 <= i < blobs@.len() ==> blob_ok(#[trigger] blobs@[i], ids@, tree_id))
        // an orphan is a file whose name parses to an id the version file does not name
        && (forall|i: int| 0 <= i < orphans@.len() ==> (#[trigger] orphans@[i]).bid is Some && !named(ids@, orphans@[i].bid->Some_0))
        // as many handles as recorded ids (or the folder does not exist at all)
        && (blobs@.len() >= ids@.len() || (blobs@.len() == 0 && orphans@.len() == 0)) })/*-*/
{
    if !folder.try_exists()? {
        return Ok((Vec::new(), Vec::new()));
    }

    let cnt = ids.len();

    let progress_mod = match cnt {
        _ if cnt <= 20 => 1,
        _ if cnt <= 100 => 10,
        _ => 100,
    };

    let mut blob_files/*+*/: Vec<BlobFile>/*-*/ = Vec::new();
    let mut orphaned_blob_files/*+*/: Vec<PathBuf>/*-*/ = Vec::new();

    let mut iter__ = read_dir_enumerated(folder)?; loop
        /*+*/invariant progress_mod > 0,
            forall|i: int| 0 <= i < blob_files@.len() ==> blob_ok(#[trigger] blob_files@[i], ids@, tree_id),
            forall|i: int| 0 <= i < orphaned_blob_files@.len() ==> (#[trigger] orphaned_blob_files@[i]).bid is Some && !named(ids@, orphaned_blob_files@[i].bid->Some_0),
        decreases iter__.rest().len(),/*-*/
    {
        let Some((idx, dirent)) = iter__.next() else { break; };
        let dirent = dirent?;
        let file_name = dirent.file_name();

        // https://en.wikipedia.org/wiki/.DS_Store
        if file_name.is_ds_store() {
            continue;
        }

        // https://en.wikipedia.org/wiki/AppleSingle_and_AppleDouble_formats
        if file_name.is_apple_double() {
            continue;
        }

        let blob_file_name = file_name.to_str_checked()?;

        let blob_file_id = parse_blob_file_id(&blob_file_name)?;

        let blob_file_path = dirent.path();

        if let Some(e__) = find_id(ids, blob_file_id) { let checksum = e__.1;
            let file = File::open(&blob_file_path)?;

            let meta = read_blob_meta(&file, &blob_file_path)?;

            let file_accessor = if let Some(dt) = dt_cloned(descriptor_table) {
                FileAccessor::DescriptorTable(dt)
            } else {
                FileAccessor::File(Arc::new(file))
            };

            blob_files.push(BlobFile(Arc::new(BlobFileInner {
                id: blob_file_id,
                path: blob_file_path,
                meta,
                is_deleted: AtomicBool::new(false),
                checksum,
                file_accessor,
                tree_id,
            })));

            if idx % progress_mod == 0 {
            }
        } else {
            orphaned_blob_files.push(blob_file_path.clone());
        }
    }

    if blob_files.len() < ids.len() {
        return Err(Error::Unrecoverable);
    }

    Ok((blob_files, orphaned_blob_files))
}
//@ END

}
fn main() {}
