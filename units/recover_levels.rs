//@ UNIT recover_levels
// Tree::recover_levels (src/tree/mod.rs, whole function): at reopen every table named by the version file is recovered with
// the level, checksum and global seqno recorded for it, a missing table makes the open fail, files the version does not name
// are only *collected* while scanning and are unlinked - like old version files and orphaned blob files - only after the
// version has been fully recovered.  Obligations C04.9, C20.6, C05.6
use vstd::prelude::*;
use vstd::std_specs::iter::*;
verus! {

global size_of usize == 8;

type TreeId = u64;
type TableId = u64;
type BlobFileId = u64;
type SeqNo = u64;
type VersionId = u64;

//@ INCLUDE prelude/seqiter.rs

// ---------------- prelude (TRUSTED) ----------------
enum Error { Io, Unrecoverable }
#[verifier::external_body] struct Path { p: u8 }
/// a path; `tid` = the table id its file name parses to (ghost, set by the directory model)
struct PathBuf { ghost tid: Option<TableId>, ghost blob_orphan: bool }
#[derive(Copy, Clone, PartialEq, Eq, Structural)] struct Checksum(u128);
#[verifier::external_body] struct BlobFile { p: u8 }
#[verifier::external_body] struct ArcCache { p: u8 }
impl ArcCache { #[verifier::external_body] fn clone(&self) -> (r: Self) { unimplemented!() } }
#[verifier::external_body] struct OptDt { p: u8 }
impl OptDt {
    #[verifier::external_body] fn clone(&self) -> (r: Self) { unimplemented!() }
    #[verifier::external_body] fn as_ref(&self) -> (r: &Self) { unimplemented!() }
}
struct PinningPolicy { p: u8 }
impl PinningPolicy { #[verifier::external_body] fn get(&self, level: usize) -> (r: bool) { unimplemented!() } }
struct Config { cache: ArcCache, descriptor_table: OptDt, filter_block_pinning_policy: PinningPolicy, index_block_pinning_policy: PinningPolicy }

struct RecoveredTable { id: TableId, checksum: Checksum, global_seqno: SeqNo }
struct Recovery { table_ids: Vec<Vec<Vec<RecoveredTable>>>, blob_file_ids: Vec<(BlobFileId, Checksum)>, ghost vid: VersionId }
/// version::recovery::recover (unit recover, C10.5)
/// what the version file named by `current` records (ghost function of the directory); the level count is one byte, so <= 255 levels
uninterp spec fn recorded_tables(path: &Path) -> Seq<Vec<Vec<RecoveredTable>>>;
#[verifier::external_body] fn recover(path: &Path) -> (r: Result<Recovery, Error>) ensures r is Ok ==> r->Ok_0.table_ids@.len() <= 255 && r->Ok_0.table_ids@ == recorded_tables(path) { unimplemented!() }
/// table id `id` is named by the version file
spec fn recorded(t: Seq<Vec<Vec<RecoveredTable>>>, id: TableId) -> bool { exists|i: int, j: int, k: int| #[trigger] named_at(t, id, i, j, k) }
spec fn named_at(t: Seq<Vec<Vec<RecoveredTable>>>, id: TableId, i: int, j: int, k: int) -> bool { 0 <= i < t.len() && 0 <= j < t[i]@.len() && 0 <= k < t[i]@[j]@.len() && t[i]@[j]@[k].id == id }
/// every table named at a position before (li, ri, ti) in iteration order is in the map
spec fn covered(m: Map<TableId, (u8, Checksum, SeqNo)>, t: Seq<Vec<Vec<RecoveredTable>>>, li: int, ri: int, ti: int) -> bool {
    forall|i: int, j: int, k: int| 0 <= i < t.len() && 0 <= j < t[i]@.len() && 0 <= k < t[i]@[j]@.len()
        && (i < li || (i == li && (j < ri || (j == ri && k < ti)))) ==> m.contains_key((#[trigger] t[i]@[j]@[k]).id)
}

/// crate::HashMap<TableId, (u8, Checksum, SeqNo)> (TRUSTED model of std HashMap)
struct TableMap { ghost m: Map<TableId, (u8, Checksum, SeqNo)> }
impl TableMap {
    #[verifier::external_body] fn default() -> (r: Self) ensures r.m == Map::<TableId, (u8, Checksum, SeqNo)>::empty() { unimplemented!() }
    #[verifier::external_body] fn insert(&mut self, k: TableId, v: (u8, Checksum, SeqNo)) ensures final(self).m == old(self).m.insert(k, v) { unimplemented!() }
    #[verifier::external_body] fn get(&self, k: &TableId) -> (r: Option<&(u8, Checksum, SeqNo)>) ensures match r { Some(v) => self.m.contains_key(*k) && *v == self.m[*k], None => !self.m.contains_key(*k) } { unimplemented!() }
    #[verifier::external_body] fn len(&self) -> (r: usize) ensures r == self.m.dom().len() { unimplemented!() }
}
/// a table handle as Table::recover builds it (unit table_recover, C04.7 / C14.7)
struct Table { ghost id: TableId, ghost checksum: Checksum, ghost global_seqno: SeqNo, ghost tree_id: TreeId }
impl Table {
    #[verifier::external_body]
    fn recover(path: PathBuf, checksum: Checksum, global_seqno: SeqNo, tree_id: TreeId, cache: ArcCache, descriptor_table: OptDt, pin_filter: bool, pin_index: bool) -> (r: Result<Table, Error>)
        ensures r is Ok ==> Some(r->Ok_0.id) == path.tid && r->Ok_0.checksum == checksum && r->Ok_0.global_seqno == global_seqno && r->Ok_0.tree_id == tree_id
    { unimplemented!() }
}
/// file names (TRUSTED string model)
struct FileName { ghost tid: Option<TableId>, ghost ds_store: bool, ghost apple_double: bool }
struct NameStr { ghost tid: Option<TableId> }
impl FileName {
    /// `file_name == ".DS_Store"`, `file_name.to_string_lossy().starts_with("._")`
    #[verifier::external_body] fn is_ds_store(&self) -> (r: bool) ensures r == self.ds_store { unimplemented!() }
    #[verifier::external_body] fn is_apple_double(&self) -> (r: bool) ensures r == self.apple_double { unimplemented!() }
    /// `file_name.to_str().ok_or_else(|| Unrecoverable)?`
    #[verifier::external_body] fn to_str_checked(&self) -> (r: Result<NameStr, Error>) ensures r is Ok ==> r->Ok_0.tid == self.tid { unimplemented!() }
}
/// `name.parse::<TableId>().map_err(|e| Unrecoverable)?`
#[verifier::external_body] fn parse_table_id(n: &NameStr) -> (r: Result<TableId, Error>) ensures r is Ok ==> n.tid == Some(r->Ok_0) { unimplemented!() }
struct DirEntry { ghost name: FileName }
impl DirEntry {
    #[verifier::external_body] fn file_name(&self) -> (r: FileName) ensures r == self.name { unimplemented!() }
    #[verifier::external_body] fn path(&self) -> (r: PathBuf) ensures r.tid == self.name.tid, !r.blob_orphan { unimplemented!() }
}
impl PathBuf {
    #[verifier::external_body] fn is_dir(&self) -> (r: bool) { unimplemented!() }
    #[verifier::external_body] fn try_exists(&self) -> (r: Result<bool, Error>) { unimplemented!() }
}
impl Path { #[verifier::external_body] fn join(&self, s: &str) -> (r: PathBuf) { unimplemented!() } }
const TABLES_FOLDER: &'static str = "tables";
const BLOBS_FOLDER: &'static str = "blobs";
#[verifier::external_body] fn create_dir_all(p: &PathBuf) -> (r: Result<(), Error>) { unimplemented!() }
#[verifier::external_body] fn fsync_directory(p: &PathBuf) -> (r: Result<(), Error>) { unimplemented!() }
/// the directory listing (ghost): what read_dir will deliver
uninterp spec fn dir_entries(p: PathBuf) -> Seq<Result<DirEntry, Error>>;
/// `std::fs::read_dir(p)?.enumerate()`
#[verifier::external_body]
fn read_dir_enumerated(p: &PathBuf) -> (r: Result<SeqIter<(usize, Result<DirEntry, Error>)>, Error>)
    ensures r is Ok ==> r->Ok_0.rest().len() == dir_entries(*p).len() && forall|i: int| 0 <= i < dir_entries(*p).len() ==> (#[trigger] r->Ok_0.rest()[i]).1 == dir_entries(*p)[i]
{ unimplemented!() }
/// entry e is a table file the version file does not name
spec fn is_orphan_entry(e: Result<DirEntry, Error>, rec: Seq<Vec<Vec<RecoveredTable>>>) -> bool {
    e is Ok && !e->Ok_0.name.ds_store && !e->Ok_0.name.apple_double && e->Ok_0.name.tid is Some && !recorded(rec, e->Ok_0.name.tid->Some_0)
}
spec fn listed(v: Seq<PathBuf>, tid: TableId) -> bool { exists|k: int| 0 <= k < v.len() && (#[trigger] v[k]).tid == Some(tid) }
impl Path {
    /// `tree_path.join(TABLES_FOLDER)` (R12)
    uninterp spec fn tables_folder(&self) -> PathBuf;
    #[verifier::external_body] fn join_tables(&self) -> (r: PathBuf) ensures r == self.tables_folder() { unimplemented!() }
}
/// vlog::recover_blob_files: the blob files the version names, and the paths of the others
#[verifier::external_body]
fn recover_blob_files(folder: &PathBuf, ids: &Vec<(BlobFileId, Checksum)>, tree_id: TreeId, dt: &OptDt) -> (r: Result<(Vec<BlobFile>, Vec<PathBuf>), Error>)
    ensures r is Ok ==> forall|i: int| 0 <= i < r->Ok_0.1@.len() ==> (#[trigger] r->Ok_0.1@[i]).blob_orphan
{ unimplemented!() }
struct Version { ghost vid: VersionId }
impl Version {
    /// Version::from_recovery (unit from_recovery, C04.6)
    #[verifier::external_body] fn from_recovery(recovery: Recovery, tables: &Vec<Table>, blob_files: &Vec<BlobFile>) -> (r: Result<Version, Error>) { unimplemented!() }
    #[verifier::external_body] fn id(&self) -> (r: VersionId) ensures r == self.vid { unimplemented!() }
}
/// effect token (R15): what has been unlinked so far, and whether the version has been recovered
struct Fx { ghost removed: Seq<PathBuf>, ghost old_versions_cleaned: bool }
/// Tree::cleanup_orphaned_version (unit orphans, C20.3)
#[verifier::external_body]
fn cleanup_orphaned_version(path: &Path, latest: VersionId, Ghost(recovered): Ghost<bool>, Tracked(fx): Tracked<&mut Fx>) -> (r: Result<(), Error>)
    requires recovered
    ensures final(fx).removed == old(fx).removed
{ unimplemented!() }
/// std::fs::remove_file: may only be reached once the version is recovered, and only for a file the version does not name
#[verifier::external_body]
fn remove_file(p: &PathBuf, Ghost(recovered): Ghost<bool>, Ghost(rec): Ghost<Seq<Vec<Vec<RecoveredTable>>>>, Tracked(fx): Tracked<&mut Fx>) -> (r: Result<(), Error>)
    requires recovered, p.blob_orphan || (p.tid is Some && !recorded(rec, p.tid->Some_0))
    ensures r is Ok ==> final(fx).removed == old(fx).removed.push(*p), r is Err ==> final(fx).removed == old(fx).removed
{ unimplemented!() }
struct Tree { p: u8 }

/// entry `e` of the table map is what the version file records for table `id` at some position (level i, run j, index k)
spec fn entry_at(t: Seq<Vec<Vec<RecoveredTable>>>, id: TableId, e: (u8, Checksum, SeqNo), i: int, j: int, k: int) -> bool {
    0 <= i < t.len() && 0 <= j < t[i]@.len() && 0 <= k < t[i]@[j]@.len()
    && t[i]@[j]@[k].id == id && e.0 == i && e.1 == t[i]@[j]@[k].checksum && e.2 == t[i]@[j]@[k].global_seqno
}
/// every entry of the table map comes from the version file: level, checksum and global seqno are the recorded ones
spec fn from_rec(m: Map<TableId, (u8, Checksum, SeqNo)>, t: Seq<Vec<Vec<RecoveredTable>>>) -> bool {
    forall|id: TableId| #[trigger] m.contains_key(id) ==> exists|i: int, j: int, k: int| #[trigger] entry_at(t, id, m[id], i, j, k)
}
/// a recovered table handle carries what the map (hence the version file) records for its id
spec fn table_ok(t: Table, m: Map<TableId, (u8, Checksum, SeqNo)>, tree_id: TreeId) -> bool {
    m.contains_key(t.id) && t.checksum == m[t.id].1 && t.global_seqno == m[t.id].2 && t.tree_id == tree_id
}
spec fn orphan_ok(p: PathBuf, rec: Seq<Vec<Vec<RecoveredTable>>>) -> bool { p.tid is Some && !recorded(rec, p.tid->Some_0) }

//@ SUBST `crate :: Error` ==> `Error`
impl Tree {
//@ FROM src/tree/mod.rs :: impl Tree :: fn recover_levels :: OBL C04.9, C20.6, C05.6
//@ SUBST `crate :: Result < Version >` ==> `Result<Version, Error>`
//@ SUBST `< P : AsRef < Path > >` ==> ``
//@ SUBST `tree_path : P` ==> `tree_path: &Path`
//@ SUBST `let tree_path = tree_path . as_ref ( ) ;` ==> ``
//@ SUBST `use crate :: { file :: fsync_directory , file :: TABLES_FOLDER , TableId } ;` ==> ``
//@ SUBST `let mut result : crate :: HashMap < TableId , ( u8 , Checksum , SeqNo ) > = crate :: HashMap :: default ( ) ;` ==> `let mut result: TableMap = TableMap::default();`
//@ SUBST `for ( level_idx , table_ids ) in recovery . table_ids . iter ( ) . enumerate ( )` ==> `for level_idx in 0..recovery.table_ids.len()`
//@ SUBST `for run in table_ids` ==> `for run in recovery.table_ids[level_idx].iter()`
//@ SUBST `level_idx . try_into ( ) . expect ( $1 )` ==> `u8::try_from(level_idx).expect($1)`
//@ SUBST `vec ! [ ]` ==> `Vec::new()`
//@ SUBST `tree_path . join ( TABLES_FOLDER )` ==> `tree_path.join_tables()`
//@ SUBST `std :: fs :: create_dir_all` ==> `create_dir_all`
//@ SUBST `for ( idx , dirent ) in std :: fs :: read_dir ( & table_base_folder ) ? . enumerate ( ) {` ==> `let mut iter__ = read_dir_enumerated(&table_base_folder)?; loop { let Some((idx, dirent)) = iter__.next() else { break; };`
//@ SUBST `file_name == ".DS_Store"` ==> `file_name.is_ds_store()`
//@ SUBST `file_name . to_string_lossy ( ) . starts_with ( "._" )` ==> `file_name.is_apple_double()`
//@ SUBST `file_name . to_str ( ) . ok_or_else ( $1 ) ?` ==> `file_name.to_str_checked()?`
//@ SUBST `table_file_name . parse :: < TableId > ( ) . map_err ( $1 ) ?` ==> `parse_table_id(&table_file_name)?`
//@ SUBST `assert ! ( ! table_file_path . is_dir ( ) ) ;` ==> ``
//@ SUBST `if let Some ( & ( level_idx , checksum , global_seqno ) ) = table_map . get ( & table_id ) {` ==> `if let Some(e__) = table_map.get(&table_id) { let (level_idx, checksum, global_seqno) = *e__;`
//@ SUBST `level_idx . into ( )` ==> `level_idx as usize`
//@ SUBST `crate :: vlog :: recover_blob_files` ==> `recover_blob_files`
//@ SUBST `crate :: file :: BLOBS_FOLDER` ==> `BLOBS_FOLDER`
//@ SUBST `Self :: cleanup_orphaned_version ( $1 )` ==> `cleanup_orphaned_version($1, Ghost(recovered), Tracked(fx))`
//@ SUBST `std :: fs :: remove_file ( $1 )` ==> `remove_file($1, Ghost(recovered), Ghost(rec), Tracked(fx))`
    fn recover_levels(
        tree_path: &Path,
        tree_id: TreeId,
        config: &Config,
        /*+*/Tracked(fx): Tracked<&mut Fx>/*-*/
    ) -> /*+*/(r:/*-*/ Result<Version, Error>/*+*/)
        requires old(fx).removed.len() == 0
        ensures
            // the obligations proper are the loop invariants (every recovered handle carries the recorded checksum / global seqno / tree id)
            // and the preconditions of remove_file / cleanup_orphaned_version (reached only after the version is recovered, only for
            // files the version does not name); a failure before that point has unlinked nothing
            forall|i: int| 0 <= i < final(fx).removed.len() ==> (#[trigger] final(fx).removed[i]).blob_orphan || final(fx).removed[i].tid is Some,
            // C20: after a successful open every table file the version file does not name has been unlinked
            r is Ok ==> forall|j: int| 0 <= j < dir_entries(tree_path.tables_folder()).len() && #[trigger] is_orphan_entry(dir_entries(tree_path.tables_folder())[j], recorded_tables(tree_path))
                ==> listed(final(fx).removed, dir_entries(tree_path.tables_folder())[j]->Ok_0.name.tid->Some_0),/*-*/
    {
        /*+*/let ghost mut recovered = false;/*-*/

        let recovery = recover(tree_path)?;
        /*+*/let ghost rec = recovery.table_ids@;/*-*/

        let table_map = {
            let mut result: TableMap = TableMap::default();

            for level_idx in 0..recovery.table_ids.len()
                /*+*/invariant from_rec(result.m, recovery.table_ids@), recovery.table_ids@.len() < 256, rec == recovery.table_ids@, covered(result.m, rec, level_idx as int, 0, 0),/*-*/
            {
                for run in /*+*/it_r:/*-*/ recovery.table_ids[level_idx].iter()
                    /*+*/invariant from_rec(result.m, recovery.table_ids@), 0 <= level_idx < recovery.table_ids@.len() < 256, rec == recovery.table_ids@, covered(result.m, rec, level_idx as int, it_r.index@ as int, 0),
                        it_r.seq().len() == recovery.table_ids@[level_idx as int]@.len(),
                        forall|j: int| 0 <= j < it_r.seq().len() ==> *(#[trigger] it_r.seq()[j]) == recovery.table_ids@[level_idx as int]@[j],/*-*/
                {
                    for table in /*+*/it_t: run
                        invariant from_rec(result.m, recovery.table_ids@), 0 <= level_idx < recovery.table_ids@.len() < 256, rec == recovery.table_ids@, covered(result.m, rec, level_idx as int, it_r.index@ as int, it_t.index@ as int),
                            0 <= it_r.index@ < recovery.table_ids@[level_idx as int]@.len(), *run == recovery.table_ids@[level_idx as int]@[it_r.index@ as int],
                            it_t.seq().len() == run@.len(), forall|k: int| 0 <= k < run@.len() ==> *(#[trigger] it_t.seq()[k]) ==/*-*/ run/*+*/@[k],/*-*/
                    {
                        /*+*/let ghost m0 = result.m;/*-*/
                        result.insert(
                            table.id,
                            (
                                u8::try_from(level_idx).expect("there are less than 256 levels"),
                                table.checksum,
                                table.global_seqno,
                            ),
                        );
                        /*+*/proof {
                            assert(*table == rec[level_idx as int]@[it_r.index@ as int]@[it_t.index@ as int]);
                            assert(entry_at(rec, table.id, result.m[table.id], level_idx as int, it_r.index@ as int, it_t.index@ as int));
                            assert forall|id: TableId| #[trigger] result.m.contains_key(id) implies exists|i: int, j: int, k: int| #[trigger] entry_at(recovery.table_ids@, id, result.m[id], i, j, k) by {
                                if id == table.id { assert(entry_at(recovery.table_ids@, id, result.m[id], level_idx as int, it_r.index@ as int, it_t.index@ as int)); }
                                else { assert(m0.contains_key(id)); let (i, j, k) = choose|i: int, j: int, k: int| #[trigger] entry_at(recovery.table_ids@, id, m0[id], i, j, k); assert(entry_at(recovery.table_ids@, id, result.m[id], i, j, k)); }
                            }
                        }/*-*/
                    }
                }
            }

            result
        };

        /*+*/proof {
            assert forall|id: TableId| recorded(rec, id) implies table_map.m.contains_key(id) by {
                let (i, j, k) = choose|i: int, j: int, k: int| #[trigger] named_at(rec, id, i, j, k);
                assert(table_map.m.contains_key(rec[i]@[j]@[k].id));
            }
        }/*-*/
        let cnt = table_map.len();

        let progress_mod = match cnt {
            _ if cnt <= 20 => 1,
            _ if cnt <= 100 => 10,
            _ => 100,
        };

        let mut tables = Vec::new();

        let table_base_folder = tree_path.join_tables();

        if !table_base_folder.try_exists()? {
            create_dir_all(&table_base_folder)?;
            fsync_directory(&table_base_folder)?;
        }

        let mut orphaned_tables = Vec::new();

        /*+*/let ghost ents = dir_entries(table_base_folder); let ghost mut done: int = 0;/*-*/
        let mut iter__ = read_dir_enumerated(&table_base_folder)?; loop
            /*+*/invariant fx.removed.len() == 0, !recovered, rec == recovery.table_ids@, from_rec(table_map.m, rec), (forall|id: TableId| recorded(rec, id) ==> table_map.m.contains_key(id)), progress_mod > 0,
                forall|i: int| 0 <= i < tables@.len() ==> table_ok(#[trigger] tables@[i], table_map.m, tree_id),
                forall|i: int| 0 <= i < orphaned_tables@.len() ==> orphan_ok(#[trigger] orphaned_tables@[i], rec) && !orphaned_tables@[i].blob_orphan,
                0 <= done <= ents.len(), ents == dir_entries(tree_path.tables_folder()), iter__.rest().len() == ents.len() - done,
                forall|i: int| 0 <= i < iter__.rest().len() ==> (#[trigger] iter__.rest()[i]).1 == ents[done + i],
                forall|j: int| 0 <= j < done && #[trigger] is_orphan_entry(ents[j], rec) ==> listed(orphaned_tables@, ents[j]->Ok_0.name.tid->Some_0),
            ensures done == ents.len(),
            decreases iter__.rest().len(),/*-*/
        {
            /*+*/let ghost rest0 = iter__.rest();
            let ghost ot0 = orphaned_tables@;/*-*/
            let Some((idx, dirent)) = iter__.next() else { break; };
            /*+*/proof {
                assert(dirent == ents[done]);
                assert forall|i: int| 0 <= i < iter__.rest().len() implies (#[trigger] iter__.rest()[i]).1 == ents[done + 1 + i] by { assert(iter__.rest()[i] == rest0[i + 1]); }
                done = done + 1;
            }/*-*/
            let dirent = dirent?;
            let file_name = dirent.file_name();

            // https://en.wikipedia.org/wiki/.DS_Store
            if file_name.is_ds_store() {
                continue;
            }

            // https://en.wikipedia.org/wiki/AppleSingle_and_AppleDouble_formats
            if file_name.is_apple_double() {
                continue;
            }

            let table_file_name = file_name.to_str_checked()?;

            let table_file_path = dirent.path();

            let table_id = parse_table_id(&table_file_name)?;

            if let Some(e__) = table_map.get(&table_id) { let (level_idx, checksum, global_seqno) = *e__;
                let pin_filter = config.filter_block_pinning_policy.get(level_idx as usize);
                let pin_index = config.index_block_pinning_policy.get(level_idx as usize);

                let table = Table::recover(
                    table_file_path,
                    checksum,
                    global_seqno,
                    tree_id,
                    config.cache.clone(),
                    config.descriptor_table.clone(),
                    pin_filter,
                    pin_index,
                )?;

                tables.push(table);

                if idx % progress_mod == 0 {
                }
                /*+*/proof {
                    let (i, j, k) = choose|i: int, j: int, k: int| #[trigger] entry_at(rec, table_id, table_map.m[table_id], i, j, k);
                    assert(named_at(rec, table_id, i, j, k));
                    assert(!is_orphan_entry(ents[done - 1], rec));
                }/*-*/
            } else {
                orphaned_tables.push(table_file_path);
                /*+*/proof {
                    let n = ot0.len() as int;
                    assert(orphaned_tables@[n].tid == Some(table_id));
                    assert forall|j: int| 0 <= j < done && #[trigger] is_orphan_entry(ents[j], rec) implies listed(orphaned_tables@, ents[j]->Ok_0.name.tid->Some_0) by {
                        if j < done - 1 {
                            let k = choose|k: int| 0 <= k < ot0.len() && (#[trigger] ot0[k]).tid == Some(ents[j]->Ok_0.name.tid->Some_0);
                            assert(orphaned_tables@[k] == ot0[k]);
                        } else {
                            assert(orphaned_tables@[n].tid == Some(ents[j]->Ok_0.name.tid->Some_0));
                        }
                    }
                }/*-*/
            }
        }

        if tables.len() < cnt {
            return Err(Error::Unrecoverable);
        }

        let (blob_files, orphaned_blob_files) = recover_blob_files(
            &tree_path.join(BLOBS_FOLDER),
            &recovery.blob_file_ids,
            tree_id,
            config.descriptor_table.as_ref(),
        )?;

        let version = Version::from_recovery(recovery, &tables, &blob_files)?;
        /*+*/proof { recovered = true; }/*-*/

        // NOTE: Cleanup old versions
        // But only after we definitely recovered the latest version
        cleanup_orphaned_version(tree_path, version.id(), Ghost(recovered), Tracked(fx))?;

        /*+*/let ghost ot = orphaned_tables@;/*-*/
        for table_path in /*+*/it_o:/*-*/ orphaned_tables
            /*+*/invariant recovered, it_o.seq() == ot, forall|i: int| 0 <= i < it_o.seq().len() ==> orphan_ok(#[trigger] it_o.seq()[i], rec),
                forall|i: int| 0 <= i < it_o.index@ ==> listed(fx.removed, (#[trigger] ot[i]).tid->Some_0),
                forall|i: int| 0 <= i < fx.removed.len() ==> (#[trigger] fx.removed[i]).blob_orphan || fx.removed[i].tid is Some,/*-*/
        {
            /*+*/let ghost rm0 = fx.removed;/*-*/
            remove_file(&table_path, Ghost(recovered), Ghost(rec), Tracked(fx))?;
            /*+*/proof {
                assert(fx.removed[rm0.len() as int] == table_path);
                assert forall|i: int| 0 <= i < it_o.index@ + 1 implies listed(fx.removed, (#[trigger] ot[i]).tid->Some_0) by {
                    if i < it_o.index@ {
                        let k = choose|k: int| 0 <= k < rm0.len() && (#[trigger] rm0[k]).tid == Some(ot[i].tid->Some_0);
                        assert(fx.removed[k] == rm0[k]);
                    } else { assert(fx.removed[rm0.len() as int].tid == Some(ot[i].tid->Some_0)); }
                }
            }/*-*/
        }

        for blob_file_path in /*+*/it_b:/*-*/ orphaned_blob_files
            /*+*/invariant recovered, forall|i: int| 0 <= i < it_b.seq().len() ==> (#[trigger] it_b.seq()[i]).blob_orphan,
                forall|i: int| 0 <= i < ot.len() ==> listed(fx.removed, (#[trigger] ot[i]).tid->Some_0),
                forall|i: int| 0 <= i < fx.removed.len() ==> (#[trigger] fx.removed[i]).blob_orphan || fx.removed[i].tid is Some,/*-*/
        {
            /*+*/let ghost rm1 = fx.removed;/*-*/
            remove_file(&blob_file_path, Ghost(recovered), Ghost(rec), Tracked(fx))?;
            /*+*/proof {
                assert forall|i: int| 0 <= i < ot.len() implies listed(fx.removed, (#[trigger] ot[i]).tid->Some_0) by {
                    let k = choose|k: int| 0 <= k < rm1.len() && (#[trigger] rm1[k]).tid == Some(ot[i].tid->Some_0);
                    assert(fx.removed[k] == rm1[k]);
                }
            }/*-*/
        }
        /*+*/proof {
            assert forall|j: int| 0 <= j < ents.len() && #[trigger] is_orphan_entry(ents[j], rec) implies listed(fx.removed, ents[j]->Ok_0.name.tid->Some_0) by {
                let k = choose|k: int| 0 <= k < ot.len() && (#[trigger] ot[k]).tid == Some(ents[j]->Ok_0.name.tid->Some_0);
                assert(listed(fx.removed, ot[k].tid->Some_0));
            }
        }/*-*/

        Ok(version)
    }
//@ END
}

}
fn main() {}
