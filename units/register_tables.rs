#![feature(allocator_api)]
//@ UNIT register_tables
// Tree::register_tables (src/tree/mod.rs): the tables produced by a flush become visible in the same version step that
// releases the sealed memtables they came from - never one without the other - and a failed step changes nothing.
// Obligations C16.9, C01.14
use vstd::prelude::*;
use std::sync::Arc;
use vstd::std_specs::iter::*;
verus! {

global size_of usize == 8;

type SeqNo = u64;
type MemtableId = u64;

//@ INCLUDE prelude/seqiter.rs
/// `for &id in ids` over a slice of ids
#[verifier::external_body] fn ids_iter(ids: &[MemtableId]) -> (r: SeqIter<MemtableId>) ensures r.rest() == ids@ { unimplemented!() }

#[verifier::external_body] struct Error { p: u8 }
#[verifier::external_body] struct Path { p: u8 }
#[verifier::external_body] struct SequenceNumberCounter { p: u8 }
/// `drawn(c, s)`: s was drawn by this step from the counter with identity c (unit super_versions, C02.14)
uninterp spec fn drawn(counter: int, s: SeqNo) -> bool;
impl SequenceNumberCounter { uninterp spec fn id(&self) -> int; }
#[verifier::external_body] struct Table { p: u8 }
#[verifier::external_body] struct BlobFile { p: u8 }
struct FragmentationMap { ghost empty: bool }
impl FragmentationMap { #[verifier::external_body] fn is_empty(&self) -> (r: bool) ensures r == self.empty { unimplemented!() } }
#[verifier::external_body] struct Memtable { p: u8 }

/// Version::with_new_l0_run as an uninterpreted function of its arguments (its level arithmetic is not under contract here)
struct Version { ghost v: int }
uninterp spec fn with_run(v: int, tables: Seq<Table>, blob_files: Option<Seq<BlobFile>>, frag: Option<FragmentationMap>) -> int;
impl Version {
    #[verifier::external_body]
    fn with_new_l0_run(&self, run: &[Table], blob_files: Option<&[BlobFile]>, diff: Option<FragmentationMap>) -> (r: Version)
        ensures r.v == with_run(self.v, run@, match blob_files { Some(b) => Some(b@), None => None }, diff)
    { unimplemented!() }
}
spec fn without(s: Seq<MemtableId>, id: MemtableId) -> Seq<MemtableId> { s.filter(|x: MemtableId| x != id) }
/// SealedMemtables: the ids of the sealed memtables, oldest first; remove / contains as in src/tree/sealed.rs
struct SealedMemtables { ghost ids: Seq<MemtableId> }
impl SealedMemtables {
    #[verifier::external_body]
    fn remove(&self, id_to_remove: MemtableId) -> (r: Self) ensures r.ids == without(self.ids, id_to_remove) { unimplemented!() }
    #[verifier::external_body]
    fn contains(&self, id: &MemtableId) -> (r: bool) ensures r == self.ids.contains(*id) { unimplemented!() }
}
struct SuperVersion { active_memtable: Arc<Memtable>, sealed_memtables: Arc<SealedMemtables>, version: Version, seqno: SeqNo }
impl Clone for SuperVersion { #[verifier::external_body] fn clone(&self) -> (r: Self) ensures r == *self { unimplemented!() } }

/// contract of SuperVersions::upgrade_version as proved in unit `super_versions` (obligations C02.4 / C16.1)
struct SuperVersions { h: Vec<SuperVersion> }
impl SuperVersions {
    #[verifier::external_body]
    fn upgrade_version<F: FnOnce(&SuperVersion) -> Result<SuperVersion, Error>>(&mut self, tree_path: &Path, f: F, seqno: &SequenceNumberCounter, visible_seqno: &SequenceNumberCounter) -> (r: Result<(), Error>)
        requires old(self).h@.len() > 0, call_requires(f, (&old(self).h@.last(),)),
        ensures
            r is Err ==> final(self).h@ == old(self).h@,
            r is Ok ==> final(self).h@.len() == old(self).h@.len() + 1 && final(self).h@.drop_last() == old(self).h@
                && drawn(seqno.id(), final(self).h@.last().seqno)
                && (exists|sv: SuperVersion| #[trigger] call_ensures(f, (&old(self).h@.last(),), Ok::<SuperVersion, Error>(sv))
                    && final(self).h@.last().version == sv.version && final(self).h@.last().active_memtable == sv.active_memtable && final(self).h@.last().sealed_memtables == sv.sealed_memtables),
    { unimplemented!() }
    /// upgrade_version_with_seqno stamps the entry with the GIVEN number (unit super_versions)
    #[verifier::external_body]
    fn upgrade_version_with_seqno<F: FnOnce(&SuperVersion) -> Result<SuperVersion, Error>>(&mut self, tree_path: &Path, f: F, seqno: SeqNo, visible_seqno: &SequenceNumberCounter) -> (r: Result<(), Error>)
        requires old(self).h@.len() > 0, call_requires(f, (&old(self).h@.last(),)),
        ensures
            r is Err ==> final(self).h@ == old(self).h@,
            r is Ok ==> final(self).h@.len() == old(self).h@.len() + 1 && final(self).h@.drop_last() == old(self).h@
                && final(self).h@.last().seqno == seqno
                && (exists|sv: SuperVersion| #[trigger] call_ensures(f, (&old(self).h@.last(),), Ok::<SuperVersion, Error>(sv))
                    && final(self).h@.last().version == sv.version && final(self).h@.last().active_memtable == sv.active_memtable && final(self).h@.last().sealed_memtables == sv.sealed_memtables),
    { unimplemented!() }
    #[verifier::external_body]
    fn latest_version(&self) -> (r: SuperVersion) requires self.h@.len() > 0 ensures r == self.h@.last() { unimplemented!() }
    /// maintenance only trims entries that no snapshot at or above the watermark resolves to (unit super_versions); the newest entry stays
    #[verifier::external_body]
    fn maintenance(&mut self, path: &Path, watermark: SeqNo) -> (r: Result<(), Error>)
        ensures final(self).h@.len() > 0, final(self).h@.last() == old(self).h@.last()
    { unimplemented!() }
}
struct Config { path: Path, seqno: SequenceNumberCounter, visible_seqno: SequenceNumberCounter }
struct Tree { config: Box<Config> }
/// std Option::filter
pub assume_specification<T, P: FnOnce(&T) -> bool> [core::option::Option::<T>::filter] (o: Option<T>, p: P) -> (r: Option<T>)
    requires o is Some ==> call_requires(p, (&o->Some_0,)),
    ensures match o { Some(x) => (r == Some(x) && call_ensures(p, (&x,), true)) || (r is None && call_ensures(p, (&x,), false)), None => r is None };
/// `ids.iter().any(|id| !sealed.contains(id))`
#[verifier::external_body]
fn any_missing(ids: &[MemtableId], sv: &SuperVersion) -> (r: bool) ensures r == exists|i: int| 0 <= i < ids@.len() && !sv.sealed_memtables.ids.contains(#[trigger] ids@[i]) { unimplemented!() }

spec fn drop_ids(s: Seq<MemtableId>, ids: Seq<MemtableId>, n: int) -> Seq<MemtableId>
    decreases n
{
    if n <= 0 { s } else { without(drop_ids(s, ids, n - 1), ids[n - 1]) }
}
/// what a successful registration appends: the old head plus the L0 run, minus the sealed memtables that were flushed
spec fn registered(new: SuperVersion, old: SuperVersion, tables: Seq<Table>, blob_files: Option<Seq<BlobFile>>, frag: Option<FragmentationMap>, ids: Seq<MemtableId>) -> bool {
    new.version.v == with_run(old.version.v, tables, blob_files, match frag { Some(f) => if f.empty { None } else { Some(f) }, None => None })
    && new.sealed_memtables.ids == drop_ids(old.sealed_memtables.ids, ids, ids.len() as int)
    && new.active_memtable == old.active_memtable
}

//@ WRAPPER_BEGIN
impl Tree {
    /// wrapper (generated) around the body of Tree::register_tables after the two locks are taken:
    /// `version_lock` is what the write guard derefs to
    fn register_tables_body(&self, tables: &[Table], blob_files: Option<&[BlobFile]>, frag_map: Option<FragmentationMap>,
        sealed_memtables_to_delete: &[MemtableId], gc_watermark: SeqNo, version_lock: &mut SuperVersions) -> (r: Result<(), Error>)
        requires old(version_lock).h@.len() > 0
        ensures
            // C16: a failed registration changes nothing (the sealed memtables stay, the flush can be repeated)
            r is Err ==> final(version_lock).h@ == old(version_lock).h@,
            r is Ok ==> final(version_lock).h@.len() > 0 && ({
                let o = old(version_lock).h@.last(); let n = final(version_lock).h@.last();
                // declined (a sealed memtable is gone already): nothing changes
                (n == o && exists|i: int| 0 <= i < sealed_memtables_to_delete@.len() && !o.sealed_memtables.ids.contains(#[trigger] sealed_memtables_to_delete@[i]))
                // registered: the run is in and the flushed memtables are out, in one step; the new version carries a number freshly
                // drawn from the tree's write counter, so no snapshot opened before re-resolves to it (C02.14)
                || (registered(n, o, tables@, match blob_files { Some(b) => Some(b@), None => None }, frag_map, sealed_memtables_to_delete@)
                    && drawn(self.config.seqno.id(), n.seqno)) }),
    {
//@ FROM src/tree/mod.rs :: AbstractTree for Tree :: fn register_tables :: STMTS `>let mut version_lock =` .. `Ok ( ( ) )` :: OBL C16.9, C01.14, C02.14
//@ SUBST `sealed_memtables_to_delete . iter ( ) . any ( $1 )` ==> `any_missing(sealed_memtables_to_delete, &version_lock.latest_version())`
//@ SUBST `for & table_id in sealed_memtables_to_delete` ==> `for table_id in ids_iter(sealed_memtables_to_delete)`
        if any_missing(sealed_memtables_to_delete, &version_lock.latest_version())
        {
            return Ok(());
        }

        version_lock.upgrade_version(
            &self.config.path,
            |current/*+*/: &SuperVersion/*-*/| /*+*/-> (o: Result<SuperVersion, Error>)
                ensures o is Ok && registered(o->Ok_0, *current, tables@, match blob_files { Some(b) => Some(b@), None => None }, frag_map, sealed_memtables_to_delete@)/*-*/
            {
                let mut copy = current.clone();

                copy.version = copy.version.with_new_l0_run(
                    tables,
                    blob_files,
                    frag_map.filter(|x/*+*/: &FragmentationMap/*-*/| /*+*/-> (b: bool) ensures b == !x.empty {/*-*/ !x.is_empty() /*+*/}/*-*/),
                );

                /*+*/let ghost v1 = copy.version.v;/*-*/
                for table_id in /*+*/it:/*-*/ ids_iter(sealed_memtables_to_delete)
                    /*+*/invariant it.seq() == sealed_memtables_to_delete@, copy.version.v == v1, copy.active_memtable == current.active_memtable,
                        copy.sealed_memtables.ids == drop_ids(current.sealed_memtables.ids, sealed_memtables_to_delete@, it.index@ as int),/*-*/
                {
                    copy.sealed_memtables = Arc::new(copy.sealed_memtables.remove(table_id));
                    /*+*/proof { assert(table_id == sealed_memtables_to_delete@[it.index@ as int]); }/*-*/
                }

                Ok(copy)
            },
            &self.config.seqno,
            &self.config.visible_seqno,
        )?;

        if let Err(e) = version_lock.maintenance(&self.config.path, gc_watermark) {
        }

        Ok(())
//@ END
    }
}
//@ WRAPPER_END

}
fn main() {}
