//@ UNIT relocate
// Blob relocation during compaction (src/compaction/flavour.rs): `RelocatingCompaction::write` passes ordinary entries and pointers
// into blob files that are NOT rewritten through unchanged; for a pointer into a blob file that IS rewritten it copies the payload
// of exactly the blob the pointer names (same blob file, same offset, same key) into the new blob file under the entry's key and
// seqno, and writes the entry with a pointer to that copy (same user-visible size); `drain_blobs` skips only blobs that come before
// the one sought.  Obligations C08.17, C12.25
use vstd::prelude::*;
verus! {
global size_of usize == 8;
type SeqNo = u64; type BlobFileId = u64;

// ---------------- prelude (TRUSTED) ----------------
#[verifier::external_body] struct Error { p: u8 }
#[verifier::external_body] pub struct Slice { p: u8 }
impl View for Slice { type V = Seq<u8>; uninterp spec fn view(&self) -> Seq<u8>; }
impl Slice {
    /// `&*slice` / `&slice` as `&[u8]`
    #[verifier::external_body] fn as_bytes(&self) -> (r: &[u8]) ensures r@ == self@ { unimplemented!() }
    /// `slice != bytes`, `slice <= bytes` (byte-lexicographic; only equality is used by the contract)
    #[verifier::external_body] fn ne_bytes(&self, o: &[u8]) -> (r: bool) ensures r == (self@ != o@) { unimplemented!() }
    #[verifier::external_body] fn le_bytes(&self, o: &[u8]) -> (r: bool) ensures self@ == o@ ==> r { unimplemented!() }
}
type UserKey = Slice; type UserValue = Slice;
#[derive(Copy, Clone, PartialEq, Eq, Structural)]
enum ValueType { Value, Tombstone, WeakTombstone, Indirection = 4 }
impl ValueType { fn is_indirection(self) -> (r: bool) ensures r == (self == ValueType::Indirection) { self == ValueType::Indirection } }
struct InternalKey { user_key: UserKey, seqno: SeqNo, value_type: ValueType }
struct InternalValue { key: InternalKey, value: UserValue }
#[derive(Copy, Clone, PartialEq, Eq, Structural)]
struct ValueHandle { blob_file_id: BlobFileId, offset: u64, on_disk_size: u32 }
#[derive(Copy, Clone, PartialEq, Eq, Structural)]
struct BlobIndirection { vhandle: ValueHandle, size: u32 }
/// pointer codec (unit block_io, C08.14): decode is the inverse of encode
uninterp spec fn ind_bytes(i: BlobIndirection) -> Seq<u8>;
impl BlobIndirection {
    /// `let mut reader = &item.value[..]; BlobIndirection::decode_from(&mut reader)`
    #[verifier::external_body]
    fn decode_value(v: &UserValue) -> (r: Result<BlobIndirection, Error>) ensures r is Ok ==> v@ == ind_bytes(r->Ok_0) { unimplemented!() }
    /// `indirection.encode_into_vec()` handed to from_components
    #[verifier::external_body]
    fn encode_into_vec(&self) -> (r: UserValue) ensures r@ == ind_bytes(*self) { unimplemented!() }
}
impl InternalValue {
    #[verifier::external_body]
    fn from_components(user_key: UserKey, value: UserValue, seqno: SeqNo, value_type: ValueType) -> (r: Self)
        ensures r.key.user_key@ == user_key@, r.value@ == value@, r.key.seqno == seqno, r.key.value_type == value_type
    { unimplemented!() }
}
/// what the blob merge scanner yields for one blob (blob_file::Scanner, C10.13): where it lies and what it holds
struct ScanEntry { key: UserKey, seqno: SeqNo, value: UserValue, offset: u64, uncompressed_len: u32 }
/// Peekable<BlobFileMergeScanner>: the blobs of the files being rewritten that are still to come
#[verifier::external_body]
struct BlobScanner { p: u8 }
impl BlobScanner {
    uninterp spec fn rest(&self) -> Seq<Result<(ScanEntry, BlobFileId), Error>>;
    #[verifier::external_body]
    fn next(&mut self) -> (r: Option<Result<(ScanEntry, BlobFileId), Error>>)
        ensures old(self).rest().len() == 0 ==> r is None && final(self).rest() == old(self).rest(),
            old(self).rest().len() > 0 ==> r == Some(old(self).rest()[0]) && final(self).rest() == old(self).rest().skip(1)
    { unimplemented!() }
    /// Peekable::next_if: takes the first item exactly when the predicate accepts it
    #[verifier::external_body]
    fn next_if<F: FnOnce(&Result<(ScanEntry, BlobFileId), Error>) -> bool>(&mut self, f: F) -> (r: Option<Result<(ScanEntry, BlobFileId), Error>>)
        requires old(self).rest().len() > 0 ==> call_requires(f, (&old(self).rest()[0],))
        ensures old(self).rest().len() == 0 ==> r is None && final(self).rest() == old(self).rest(),
            old(self).rest().len() > 0 ==> (
                (r == Some(old(self).rest()[0]) && final(self).rest() == old(self).rest().skip(1) && call_ensures(f, (&old(self).rest()[0],), true))
                || (r is None && final(self).rest() == old(self).rest() && call_ensures(f, (&old(self).rest()[0],), false)))
    { unimplemented!() }
}
/// `assert!(c, ..)` / `assert_eq!(a, b, ..)`: execution continues only if the condition holds (a panic returns nothing)
#[verifier::external_body] fn rt_check(c: bool) ensures c { assert!(c); }

/// `opt.expect(msg)`: execution continues only with Some (a panic returns nothing)
#[verifier::external_body] fn opt_expect_rt<T>(o: Option<T>) -> (r: T) ensures o == Some(r) { o.expect("") }
/// the blob is the one the pointer names
spec fn names(e: (ScanEntry, BlobFileId), key: Seq<u8>, h: ValueHandle) -> bool { e.0.key@ == key && e.1 == h.blob_file_id && e.0.offset == h.offset }
/// the blob comes before the one the pointer names (what drain_blobs may skip)
spec fn before(e: (ScanEntry, BlobFileId), key: Seq<u8>, h: ValueHandle) -> bool { e.0.key@ != key || e.1 != h.blob_file_id || e.0.offset < h.offset }

//@ FROM src/compaction/flavour.rs :: - :: fn drain_blobs :: OBL C08.17
//@ SUBST `< I : Iterator < Item = crate :: Result < ( ScanEntry , BlobFileId ) > > >` ==> ``
//@ SUBST `& mut Peekable < I >` ==> `&mut BlobScanner`
//@ SUBST `crate :: Result < ( ) >` ==> `Result<(), Error>`
//@ SUBST `entry . key != key` ==> `entry.key.ne_bytes(key)`
//@ SUBST `assert ! ( entry . key <= key , "vptr was not matched with blob" ) ;` ==> `rt_check(entry.key.le_bytes(key));`
fn drain_blobs(
    scanner: &mut BlobScanner,
    key: &[u8],
    vptr: &BlobIndirection,
) -> /*+*/(r:/*-*/ Result<(), Error>/*+*/)
    ensures
        // only a prefix of the remaining blobs is consumed, every consumed one comes before the blob sought,
        // and what comes next (if anything) is an error or a blob that does not come before it
        r is Ok ==> exists|n: int| 0 <= n <= old(scanner).rest().len() && final(scanner).rest() == old(scanner).rest().skip(n)
            && (forall|i: int| 0 <= i < n ==> (#[trigger] old(scanner).rest()[i]) is Ok && before(old(scanner).rest()[i]->Ok_0, key@, vptr.vhandle))
            && (final(scanner).rest().len() > 0 && final(scanner).rest()[0] is Ok ==> !before(final(scanner).rest()[0]->Ok_0, key@, vptr.vhandle)),/*-*/
{
    /*+*/let ghost r0 = scanner.rest(); let ghost mut n: int = 0;
    proof { assert(r0.skip(0) =~= r0); }/*-*/
    loop
        /*+*/invariant 0 <= n <= r0.len(), scanner.rest() == r0.skip(n), r0 == old(scanner).rest(),
            forall|i: int| 0 <= i < n ==> (#[trigger] r0[i]) is Ok && before(r0[i]->Ok_0, key@, vptr.vhandle),
        ensures r0.skip(n).len() > 0 && r0.skip(n)[0] is Ok ==> !before(r0.skip(n)[0]->Ok_0, key@, vptr.vhandle),
        decreases r0.len() - n/*-*/
    {
        let Some(blob) = scanner.next_if(|x/*+*/: &Result<(ScanEntry, BlobFileId), Error>/*-*/| /*+*/-> (b: bool)
            ensures b == (match *x { Ok(e) => before(e, key@, vptr.vhandle), Err(_) => true })
        {/*-*/ match x {
            Ok((entry, blob_file_id)) => {
                entry.key.ne_bytes(key)
                    || (*blob_file_id != vptr.vhandle.blob_file_id)
                    || (entry.offset < vptr.vhandle.offset)
            }
            Err(_) => true,
        /*+*/}/*-*/ }) else {
            break;
        };
        /*+*/proof { assert(r0.skip(n)[0] == r0[n]); assert(r0.skip(n).skip(1) =~= r0.skip(n + 1)); }/*-*/
        let (entry, _) = blob?;

        rt_check(entry.key.le_bytes(key));
        /*+*/proof { n = n + 1; }/*-*/
    }

    Ok(())
}
//@ END

/// table::MultiWriter of the compaction: the entries written and the blob links registered, in order; which output table is current,
/// which table each written entry went to and which table each link was attached to (same model as units blob_links, kv_separation)
struct TableWriter { ghost items: Seq<InternalValue>, ghost links: Seq<BlobIndirection>, ghost cur: int, ghost item_tables: Seq<int>, ghost link_tables: Seq<int> }
impl TableWriter {
    /// write may first rotate to a fresh table (src/table/multi_writer.rs: write; the links registered so far stay with the finished one: unit table_rotate)
    #[verifier::external_body]
    fn write(&mut self, item: InternalValue) -> (r: Result<(), Error>)
        ensures final(self).links == old(self).links, r is Ok ==> final(self).items == old(self).items.push(item), r is Err ==> final(self).items == old(self).items,
            final(self).link_tables == old(self).link_tables, final(self).cur >= old(self).cur,
            r is Ok ==> final(self).item_tables == old(self).item_tables.push(final(self).cur), r is Err ==> final(self).item_tables == old(self).item_tables,
    { unimplemented!() }
    #[verifier::external_body]
    fn register_blob(&mut self, indirection: BlobIndirection)
        ensures final(self).items == old(self).items, final(self).links == old(self).links.push(indirection),
            final(self).cur == old(self).cur, final(self).item_tables == old(self).item_tables, final(self).link_tables == old(self).link_tables.push(old(self).cur),
    { unimplemented!() }
}
/// the entry just written and the link just registered went to the same output table
spec fn linked_with_item(w: TableWriter) -> bool { w.item_tables.len() > 0 && w.link_tables.len() > 0 && w.item_tables.last() == w.link_tables.last() }
/// one record of the new blob file(s)
pub ghost struct Rec { pub key: Seq<u8>, pub seqno: SeqNo, pub value: Seq<u8>, pub ulen: u32 }
/// vlog BlobFileWriter (multi-writer, unit blob_multi_writer C08.16): the handle returned names where the record went
struct BlobFileWriter { ghost recs: Seq<(ValueHandle, Rec)> }
impl BlobFileWriter {
    #[verifier::external_body]
    fn write_raw(&mut self, key: &UserKey, seqno: SeqNo, value: &UserValue, uncompressed_len: u32) -> (r: Result<ValueHandle, Error>)
        ensures r is Ok ==> final(self).recs == old(self).recs.push((r->Ok_0, Rec { key: key@, seqno, value: value@, ulen: uncompressed_len })), r is Err ==> final(self).recs == old(self).recs
    { unimplemented!() }
}
/// HashSet<BlobFileId> of the files being rewritten
struct IdSet { ghost s: Set<BlobFileId> }
impl IdSet { #[verifier::external_body] fn contains(&self, id: &BlobFileId) -> (r: bool) ensures r == self.s.contains(*id) { unimplemented!() } }
struct StandardCompaction { table_writer: TableWriter }
//@ FROM src/compaction/flavour.rs :: - :: struct RelocatingCompaction
//@ SUBST `Peekable < BlobFileMergeScanner >` ==> `BlobScanner`
//@ SUBST `HashSet < BlobFileId >` ==> `IdSet`
//@ SUBST `rewriting_blob_files : Vec < BlobFile > ,` ==> ``
struct RelocatingCompaction {
    inner: StandardCompaction,
    blob_scanner: BlobScanner,
    blob_writer: BlobFileWriter,
    rewriting_blob_file_ids: IdSet,
}
//@ END

/// a pointer into a rewritten file: the blob it names (e) is copied to the new blob file, and the entry now points to the copy (h)
spec fn reloc_ok(o: RelocatingCompaction, f: RelocatingCompaction, item: InternalValue, old_ptr: BlobIndirection, e: (ScanEntry, BlobFileId), h: ValueHandle) -> bool {
    &&& names(e, item.key.user_key@, old_ptr.vhandle)
    &&& f.blob_writer.recs == o.blob_writer.recs.push((h, Rec { key: item.key.user_key@, seqno: item.key.seqno, value: e.0.value@, ulen: e.0.uncompressed_len }))
    &&& f.inner.table_writer.items.len() == o.inner.table_writer.items.len() + 1 && f.inner.table_writer.items.drop_last() == o.inner.table_writer.items
    // the recorded user-visible size is the old pointer's (equivalently the blob's recorded uncompressed length - the same number for consistent data)
    &&& exists|sz: u32| (sz == old_ptr.size || sz == e.0.uncompressed_len) && #[trigger] new_ptr_ok(o, f, item, BlobIndirection { vhandle: h, size: sz })
}
spec fn new_ptr_ok(o: RelocatingCompaction, f: RelocatingCompaction, item: InternalValue, np: BlobIndirection) -> bool {
    let w = f.inner.table_writer.items.last();
    w.key.user_key@ == item.key.user_key@ && w.key.seqno == item.key.seqno && w.key.value_type == ValueType::Indirection && w.value@ == ind_bytes(np)
    && f.inner.table_writer.links == o.inner.table_writer.links.push(np)
}
/// what write does with a pointer entry whose value decodes to old_ptr
spec fn ind_ok(o: RelocatingCompaction, f: RelocatingCompaction, item: InternalValue, old_ptr: BlobIndirection) -> bool {
    item.value@ == ind_bytes(old_ptr) && (
        // a pointer into a file that is not rewritten passes through unchanged and is linked
        if !o.rewriting_blob_file_ids.s.contains(old_ptr.vhandle.blob_file_id) {
            f.inner.table_writer.items == o.inner.table_writer.items.push(item) && f.inner.table_writer.links == o.inner.table_writer.links.push(old_ptr)
            && f.blob_writer == o.blob_writer && f.blob_scanner.rest() == o.blob_scanner.rest()
        } else {
            exists|e: (ScanEntry, BlobFileId), h: ValueHandle| #[trigger] reloc_ok(o, f, item, old_ptr, e, h)
        })
}
//@ SUBST `crate :: Result < ( ) >` ==> `Result<(), Error>`
//@ SUBST `crate :: ValueType ::` ==> `ValueType::`
impl RelocatingCompaction {
//@ FROM src/compaction/flavour.rs :: impl RelocatingCompaction :: fn drain_blobs
    fn drain_blobs(&mut self, key: &[u8], indirection: &BlobIndirection) -> /*+*/(r:/*-*/ Result<(), Error>/*+*/)
        ensures final(self).inner == old(self).inner, final(self).blob_writer == old(self).blob_writer, final(self).rewriting_blob_file_ids == old(self).rewriting_blob_file_ids,
            r is Ok ==> exists|n: int| 0 <= n <= old(self).blob_scanner.rest().len() && final(self).blob_scanner.rest() == old(self).blob_scanner.rest().skip(n)
                && (forall|i: int| 0 <= i < n ==> (#[trigger] old(self).blob_scanner.rest()[i]) is Ok && before(old(self).blob_scanner.rest()[i]->Ok_0, key@, indirection.vhandle))
                && (final(self).blob_scanner.rest().len() > 0 && final(self).blob_scanner.rest()[0] is Ok ==> !before(final(self).blob_scanner.rest()[0]->Ok_0, key@, indirection.vhandle)),/*-*/
    {
        drain_blobs(&mut self.blob_scanner, key, indirection)
    }
//@ END

//@ FROM src/compaction/flavour.rs :: impl CompactionFlavour for RelocatingCompaction :: fn write :: OBL C08.17, C12.25, C09.12
//@ SUBST `let mut reader = & item . value [ .. ] ;` ==> ``
//@ SUBST `BlobIndirection :: decode_from ( & mut reader ) . inspect_err ( | e | { $1 } ) ?` ==> `BlobIndirection::decode_value(&item.value)?`
//@ SUBST `BlobIndirection :: decode_from ( & mut reader ) . inspect_err ( | e | { } ) ?` ==> `BlobIndirection::decode_value(&item.value)?`
//@ SUBST `self . blob_scanner . next ( ) . expect ( "vptr was not matched with blob (scanner is unexpectedly exhausted)" ) ?` ==> `opt_expect_rt(self.blob_scanner.next())?`
//@ SUBST `assert_eq ! ( blob_file_id , indirection . vhandle . blob_file_id , "matched blob has different blob file ID than vptr" , ) ;` ==> `rt_check(blob_file_id == indirection.vhandle.blob_file_id);`
//@ SUBST `assert_eq ! ( blob_entry . key , item . key . user_key , "matched blob has different key than vptr" , ) ;` ==> `rt_check(!blob_entry.key.ne_bytes(item.key.user_key.as_bytes()));`
//@ SUBST `assert_eq ! ( blob_entry . offset , indirection . vhandle . offset , "matched blob has different offset than vptr" , ) ;` ==> `rt_check(blob_entry.offset == indirection.vhandle.offset);`
//@ SUBST `debug_assert_eq ! ( $1 ) ;` ==> ``
//@ SUBST `self . drain_blobs ( & item . key . user_key , & indirection )` ==> `self.drain_blobs(item.key.user_key.as_bytes(), &indirection)`
    fn write(&mut self, item: InternalValue) -> /*+*/(r:/*-*/ Result<(), Error>/*+*/)
        ensures final(self).rewriting_blob_file_ids == old(self).rewriting_blob_file_ids,
            // an ordinary entry passes through; the blob side is untouched
            r is Ok && item.key.value_type != ValueType::Indirection ==> final(self).inner.table_writer.items == old(self).inner.table_writer.items.push(item)
                && final(self).inner.table_writer.links == old(self).inner.table_writer.links && final(self).blob_writer == old(self).blob_writer && final(self).blob_scanner.rest() == old(self).blob_scanner.rest(),
            r is Ok && item.key.value_type == ValueType::Indirection ==> exists|old_ptr: BlobIndirection| #[trigger] ind_ok(*old(self), *final(self), item, old_ptr),
            // C09.12: a pointer entry gets exactly one link, attached to the table the entry was written into; other entries get none
            r is Ok ==> final(self).inner.table_writer.item_tables.len() == old(self).inner.table_writer.item_tables.len() + 1,
            r is Ok && item.key.value_type == ValueType::Indirection ==> final(self).inner.table_writer.link_tables.len() == old(self).inner.table_writer.link_tables.len() + 1 && linked_with_item(final(self).inner.table_writer),   // @OBL C09.12
            r is Ok && item.key.value_type != ValueType::Indirection ==> final(self).inner.table_writer.link_tables == old(self).inner.table_writer.link_tables,   // @OBL C09.12
        /*-*/
    {
        if item.key.value_type.is_indirection() {

            let indirection = BlobIndirection::decode_value(&item.value)?;
            /*+*/let ghost op = indirection; let ghost mut ge: (ScanEntry, BlobFileId) = arbitrary(); let ghost mut gh: ValueHandle = arbitrary(); let ghost mut gsz: u32 = 0;/*-*/

            let indirection = if self
                .rewriting_blob_file_ids
                .contains(&indirection.vhandle.blob_file_id)
            {
                self.drain_blobs(item.key.user_key.as_bytes(), &indirection)?;

                let (blob_entry, blob_file_id) = opt_expect_rt(self.blob_scanner.next())?;

                rt_check(blob_file_id == indirection.vhandle.blob_file_id);
                rt_check(!blob_entry.key.ne_bytes(item.key.user_key.as_bytes()));
                rt_check(blob_entry.offset == indirection.vhandle.offset);

                let new_indirection = BlobIndirection {
                    vhandle: self.blob_writer.write_raw(
                        &item.key.user_key,
                        item.key.seqno,
                        &blob_entry.value,
                        blob_entry.uncompressed_len,
                    )?,
                    size: indirection.size,
                };
                /*+*/proof { ge = (blob_entry, blob_file_id); gh = new_indirection.vhandle; gsz = new_indirection.size; assert(names(ge, item.key.user_key@, op.vhandle)); }/*-*/

                self.inner
                    .table_writer
                    .write(InternalValue::from_components(
                        item.key.user_key,
                        new_indirection.encode_into_vec(),
                        item.key.seqno,
                        ValueType::Indirection,
                    ))?;
                /*+*/proof { assert(self.inner.table_writer.items.drop_last() =~= old(self).inner.table_writer.items); }/*-*/

                new_indirection
            } else {
                // This blob is not part of the rewritten blob files
                // So just pass it through
                self.inner.table_writer.write(item)?;

                indirection
            };

            self.inner.table_writer.register_blob(indirection);
            /*+*/proof {
                if old(self).rewriting_blob_file_ids.s.contains(op.vhandle.blob_file_id) { assert(new_ptr_ok(*old(self), *self, item, BlobIndirection { vhandle: gh, size: gsz })); assert(reloc_ok(*old(self), *self, item, op, ge, gh)); }
                assert(ind_ok(*old(self), *self, item, op));
            }/*-*/
        } else {
            self.inner.table_writer.write(item)?;
        }

        Ok(())
    }
//@ END
}
}
fn main() {}
