//@ UNIT run_reader
// RunReader (src/run_reader.rs): a ranged scan over one run delivers, from the front and from the back and for any
// interleaving of next and next_back, exactly the sequence  range(table lo) ++ all of tables lo+1..hi-1 ++ range(table hi),
// each entry once.  Obligations C03.9, C12.13
use vstd::prelude::*;
verus! {

global size_of usize == 8;

#[verifier::external_body] struct InternalValue { p: u8 }
#[verifier::external_body] struct Error { p: u8 }
type Item = Result<InternalValue, Error>;

/// a table iterator (Table::range / Table::iter, unit table_iter): a double-ended source over a ghost sequence
struct Src { ghost rest: Seq<Item> }
impl Src {
    #[verifier::external_body]
    fn next(&mut self) -> (r: Option<Item>)
        ensures old(self).rest.len() == 0 ==> r is None && final(self).rest == old(self).rest,
            old(self).rest.len() > 0 ==> r == Some(old(self).rest[0]) && final(self).rest == old(self).rest.skip(1),
    { unimplemented!() }
    #[verifier::external_body]
    fn next_back(&mut self) -> (r: Option<Item>)
        ensures old(self).rest.len() == 0 ==> r is None && final(self).rest == old(self).rest,
            old(self).rest.len() > 0 ==> r == Some(old(self).rest.last()) && final(self).rest == old(self).rest.drop_last(),
    { unimplemented!() }
}
/// the range handed to the reader (`R: RangeBounds<UserKey> + Clone`); what a table yields inside it is a ghost function
struct RangeB { ghost id: int }
impl RangeB { #[verifier::external_body] fn clone(&self) -> (r: Self) ensures r == *self { unimplemented!() } }
struct Table { ghost all: Seq<Item> }
uninterp spec fn in_range(t: Table, r: RangeB) -> Seq<Item>;
impl Table {
    #[verifier::external_body] fn range(&self, r: RangeB) -> (s: Src) ensures s.rest == in_range(*self, r) { unimplemented!() }
    #[verifier::external_body] fn iter(&self) -> (s: Src) ensures s.rest == self.all { unimplemented!() }
}
/// Arc<Run<Table>> (deref to the run's tables)
struct Tables { v: Vec<Table> }
impl Tables {
    fn get(&self, i: usize) -> (r: Option<&Table>) ensures i < self.v@.len() ==> r == Some(&self.v@[i as int]), i >= self.v@.len() ==> r is None { self.v.get(i) }
    fn len(&self) -> (r: usize) ensures r == self.v@.len() { self.v.len() }
    fn deref(&self) -> (r: &Tables) ensures r == self { self }
    fn is_empty(&self) -> (r: bool) ensures r == (self.v@.len() == 0) { self.v.len() == 0 }
    /// Run::range_overlap_indexes (unit ranges, C03.3): the slice of tables that can hold keys of the range; None if no table can
    #[verifier::external_body]
    fn range_overlap_indexes(&self, range: &RangeB) -> (r: Option<(usize, usize)>)
        ensures r is Some ==> r->Some_0.0 <= r->Some_0.1 < self.v@.len()
    { unimplemented!() }
}

//@ SUBST `Arc < Run < Table > >` ==> `Tables`
//@ SUBST `Option < BoxedIterator < 'static > >` ==> `Option<Src>`
//@ FROM src/run_reader.rs :: - :: struct RunReader
struct RunReader {
    run: Tables,
    lo: usize,
    hi: usize,
    lo_reader: Option<Src>,
    hi_reader: Option<Src>,
}
//@ END

/// everything of tables a..b-1
spec fn mid(t: Seq<Table>, a: int, b: int) -> Seq<Item> decreases b - a { if a >= b { Seq::empty() } else { t[a].all + mid(t, a + 1, b) } }
proof fn lemma_mid_snoc(t: Seq<Table>, a: int, b: int)
    requires a < b
    ensures mid(t, a, b) == mid(t, a, b - 1) + t[b - 1].all
    decreases b - a
{
    if a + 1 < b { lemma_mid_snoc(t, a + 1, b); assert(t[a].all + (mid(t, a + 1, b - 1) + t[b - 1].all) =~= (t[a].all + mid(t, a + 1, b - 1)) + t[b - 1].all); }
    else { assert(mid(t, a + 1, b) =~= Seq::<Item>::empty()); assert(mid(t, a, b - 1) =~= Seq::<Item>::empty()); assert(t[a].all + Seq::<Item>::empty() =~= Seq::<Item>::empty() + t[b - 1].all); }
}
impl RunReader {
    spec fn wf(&self) -> bool {
        (self.lo_reader is Some && self.hi_reader is Some ==> self.lo < self.hi < self.run.v@.len())
        && (self.lo_reader is None || self.hi_reader is None ==> self.lo >= self.hi)
        && (self.lo_reader is Some ==> self.lo < self.run.v@.len() && self.lo < usize::MAX) && (self.hi_reader is Some ==> 0 < self.hi < self.run.v@.len())
    }
    /// what is still to be delivered, front to back
    spec fn remaining(&self) -> Seq<Item> {
        (match self.lo_reader { Some(r) => r.rest, None => Seq::empty() })
        + (if self.lo_reader is Some && self.hi_reader is Some { mid(self.run.v@, self.lo + 1, self.hi as int) } else { Seq::empty() })
        + (match self.hi_reader { Some(r) => r.rest, None => Seq::empty() })
    }

//@ FROM src/run_reader.rs :: impl RunReader :: fn new :: OBL C03.9
//@ SUBST `< R : RangeBounds < UserKey > + Clone + Send + 'static >` ==> ``
//@ SUBST `range : R` ==> `range: RangeB`
//@ SUBST `assert ! ( ! run . is_empty ( ) , "level reader cannot read empty level" ) ;` ==> ``
    fn new(
        run: Tables,
        range: RangeB,
    ) -> /*+*/(r:/*-*/ Option<Self>/*+*/)
        requires run.v@.len() > 0
        ensures r is Some ==> r->Some_0.wf() && exists|lo: int, hi: int| 0 <= lo <= hi < run.v@.len()
            && #[trigger] r->Some_0.remaining().len() == (in_range(run.v@[lo], range) + (if hi > lo { mid(run.v@, lo + 1, hi) + in_range(run.v@[hi], range) } else { Seq::empty() })).len()
            && r->Some_0.remaining() == in_range(run.v@[lo], range) + (if hi > lo { mid(run.v@, lo + 1, hi) + in_range(run.v@[hi], range) } else { Seq::empty() })/*-*/
    {
        let (lo, hi) = run.range_overlap_indexes(&range)?;

        Some(Self::culled(run, range, (Some(lo), Some(hi))))
    }
//@ END

//@ FROM src/run_reader.rs :: impl RunReader :: fn culled :: OBL C03.9, C12.13
//@ SUBST `< R : RangeBounds < UserKey > + Clone + Send + 'static >` ==> ``
//@ SUBST `range : R` ==> `range: RangeB`
//@ SUBST `( lo , hi ) : ( Option < usize > , Option < usize > ) , ) -> Self {` ==> `b__: (Option<usize>, Option<usize>), ) -> Self { let (lo, hi) = b__;`
//@ SUBST `Box :: new ( lo_reader )` ==> `lo_reader`
//@ SUBST `hi_reader . map ( $1 )` ==> `hi_reader`
    fn culled(
        run: Tables,
        range: RangeB,
        b__: (Option<usize>, Option<usize>),
    ) -> /*+*/(r:/*-*/ Self/*+*/)
        requires run.v@.len() > 0, b__.0 is Some ==> b__.0->Some_0 < run.v@.len(), b__.1 is Some ==> b__.1->Some_0 < run.v@.len()
        ensures r.wf(), ({ let lo = if b__.0 is Some { b__.0->Some_0 as int } else { 0 }; let hi = if b__.1 is Some { b__.1->Some_0 as int } else { run.v@.len() - 1 };
            r.remaining() == in_range(run.v@[lo], range) + (if hi > lo { mid(run.v@, lo + 1, hi) + in_range(run.v@[hi], range) } else { Seq::empty() }) })/*-*/
    { let (lo, hi) = b__;
        let lo = lo.unwrap_or_default();
        let hi = hi.unwrap_or(run.len() - 1);

        let lo_table = run.deref().get(lo).expect("should exist");
        let lo_reader = lo_table.range(range.clone());

        let hi_reader = if hi > lo {
            let hi_table = run.deref().get(hi).expect("should exist");
            Some(hi_table.range(range))
        } else {
            None
        };

        /*+*/let r =/*-*/ Self {
            run,
            lo,
            hi,
            lo_reader: Some(lo_reader),
            hi_reader: hi_reader,
        }/*+*/;
        proof { assert(r.remaining() =~= in_range(r.run.v@[lo as int], range) + (if hi > lo { mid(r.run.v@, lo + 1, hi as int) + in_range(r.run.v@[hi as int], range) } else { Seq::empty() })); }
        r/*-*/
    }
//@ END

//@ FROM src/run_reader.rs :: impl Iterator for RunReader :: fn next :: OBL C03.9, C12.13
//@ SUBST `Option < Self :: Item >` ==> `Option<Item>`
//@ SUBST `Box :: new ( $1 )` ==> `$1`
    fn next(&mut self) -> /*+*/(r:/*-*/ Option<Item>/*+*/)
        requires old(self).wf()
        ensures final(self).wf(), final(self).run == old(self).run,
            old(self).remaining().len() == 0 ==> r is None && final(self).remaining().len() == 0,
            old(self).remaining().len() > 0 ==> r == Some(old(self).remaining()[0]) && final(self).remaining() == old(self).remaining().skip(1),/*-*/
    {
        loop
            /*+*/invariant self.wf(), self.run == old(self).run, self.remaining() == old(self).remaining(),
            decreases (if self.lo_reader is Some { 1int } else { 0int }) + (if self.hi >= self.lo { self.hi - self.lo } else { 0 }),/*-*/
        {
            if let Some(lo_reader) = &mut self.lo_reader {
                if let Some(item) = lo_reader.next() {
                    return Some(item);
                }

                self.lo_reader = None;
                self.lo += 1;

                if self.lo < self.hi {
                    self.lo_reader = Some(
                        self.run.get(self.lo).expect("should exist").iter(),
                    );
                }
            } else if let Some(hi_reader) = &mut self.hi_reader {
                return hi_reader.next();
            } else {
                return None;
            }
        }
    }
//@ END
//@ FROM src/run_reader.rs :: impl DoubleEndedIterator for RunReader :: fn next_back :: OBL C03.9, C12.13
//@ SUBST `Option < Self :: Item >` ==> `Option<Item>`
//@ SUBST `Box :: new ( $1 )` ==> `$1`
    fn next_back(&mut self) -> /*+*/(r:/*-*/ Option<Item>/*+*/)
        requires old(self).wf()
        ensures final(self).wf(), final(self).run == old(self).run,
            old(self).remaining().len() == 0 ==> r is None && final(self).remaining().len() == 0,
            old(self).remaining().len() > 0 ==> r == Some(old(self).remaining().last()) && final(self).remaining() == old(self).remaining().drop_last(),/*-*/
    {
        loop
            /*+*/invariant self.wf(), self.run == old(self).run, self.remaining() == old(self).remaining(),
            decreases (if self.hi_reader is Some { 1int } else { 0int }) + (if self.hi >= self.lo { self.hi - self.lo } else { 0 }),/*-*/
        {
            if let Some(hi_reader) = &mut self.hi_reader {
                if let Some(item) = hi_reader.next_back() {
                    return Some(item);
                }

                self.hi_reader = None;
                self.hi -= 1;

                if self.lo < self.hi {
                    self.hi_reader = Some(
                        self.run.get(self.hi).expect("should exist").iter(),
                    );
                    /*+*/proof { lemma_mid_snoc(self.run.v@, self.lo + 1, self.hi + 1); }/*-*/
                }
            } else if let Some(lo_reader) = &mut self.lo_reader {
                return lo_reader.next_back();
            } else {
                return None;
            }
        }
    }
//@ END
}

}
fn main() {}
