//@ UNIT run_scanner
// RunScanner::next (compaction input over a multi-table run): every item of every table scanner is passed
// through in order - in particular no error is swallowed.  Obligation C10.6 (also C12.7)
use vstd::prelude::*;

//@ FROM src/lib.rs :: - :: macro_rules fail_iter
//@ SUBST `e . into ( )` ==> `e`
macro_rules! fail_iter {
    ($e:expr) => {
        match $e {
            Ok(v) => v,
            Err(e) => return Some(Err(e)),
        }
    };
}
//@ END

verus! {

#[verifier::external_body] pub struct InternalValue { p: u8 }
#[verifier::external_body] pub struct Error { p: u8 }
pub type Item = Result<InternalValue, Error>;

/// TRUSTED: table::Scanner yields the items of a ghost sequence in order (block decoding is C12.1, checksums C10.2)
#[verifier::external_body]
pub struct Scanner { p: u8 }
impl Scanner {
    pub uninterp spec fn rest(&self) -> Seq<Item>;
    #[verifier::external_body]
    pub fn next(&mut self) -> (r: Option<Item>)
        ensures old(self).rest().len() == 0 ==> r is None && final(self).rest() == old(self).rest(),
            old(self).rest().len() > 0 ==> r == Some(old(self).rest()[0]) && final(self).rest() == old(self).rest().skip(1),
    { unimplemented!() }
}
pub struct Table { pub id: u64 }
impl Table {
    /// what Table::scan() yields: an error (file cannot be opened / first block fails) or a scanner over the table's items
    pub uninterp spec fn scan_spec(&self) -> Result<Seq<Item>, Error>;
    #[verifier::external_body]
    pub fn scan(&self) -> (r: Result<Scanner, Error>)
        ensures match (r, self.scan_spec()) { (Ok(s), Ok(items)) => s.rest() == items, (Err(e), Err(e2)) => e == e2, _ => false }
    { unimplemented!() }
}
/// stands for Arc<Run<Table>> (deref to a slice of tables)
pub struct Tables { pub v: Vec<Table> }
impl Tables {
    pub fn get(&self, i: usize) -> (r: Option<&Table>) ensures i < self.v@.len() ==> r == Some(&self.v@[i as int]), i >= self.v@.len() ==> r is None { self.v.get(i) }
}

//@ SUBST `Arc < Run < Table > >` ==> `Tables`
//@ FROM src/run_scanner.rs :: - :: struct RunScanner
struct RunScanner {
    tables: Tables,
    lo: usize,
    hi: usize,
    lo_reader: Option<Scanner>,
}
//@ END

/// what the tables after `lo` will still yield: each table's items in order; a table that cannot be scanned yields its error and ends the stream
spec fn later(ts: Seq<Table>, lo: int, hi: int) -> Seq<Item>
    decreases hi - lo
{
    if lo >= hi || lo + 1 >= ts.len() { Seq::empty() } else {
        match ts[lo + 1].scan_spec() { Err(e) => seq![Err::<InternalValue, Error>(e)], Ok(items) => items + later(ts, lo + 1, hi) }
    }
}
impl RunScanner {
    spec fn stream(&self) -> Seq<Item> { match self.lo_reader { Some(rd) => rd.rest() + later(self.tables.v@, self.lo as int, self.hi as int), None => Seq::empty() } }
    spec fn wf(&self) -> bool { self.hi < self.tables.v@.len() && self.lo <= self.hi + 1 && self.hi < usize::MAX && (self.lo_reader is Some ==> self.lo <= self.hi) }

//@ FROM src/run_scanner.rs :: Iterator for RunScanner :: fn next :: OBL C10.6, C12.7
//@ SUBST `Self :: Item` ==> `Item`
    fn next(&mut self) -> /*+*/(r: /*-*/Option<Item>/*+*/)
        requires old(self).wf(),
        ensures
            final(self).wf(),
            // C10.6: the next item of the run is returned as it is - value or error - and nothing is skipped
            old(self).stream().len() > 0 ==> r == Some(old(self).stream()[0]) && final(self).stream() == old(self).stream().skip(1),
            old(self).stream().len() == 0 ==> r is None && final(self).stream().len() == 0,/*-*/
    {
        loop
            /*+*/invariant self.wf(), self.stream() == old(self).stream(), self.tables == old(self).tables, self.hi == old(self).hi,
            decreases self.hi + 2 - self.lo + (if self.lo_reader is Some { 1int } else { 0 }),/*-*/
        {
            if let Some(lo_reader) = &mut self.lo_reader {
                /*+*/let ghost rest0 = lo_reader.rest();
                let ghost lt = later(self.tables.v@, self.lo as int, self.hi as int);/*-*/
                if let Some(item) = lo_reader.next() {
                    /*+*/proof {
                        assert((rest0 + lt)[0] == rest0[0]);
                        assert((rest0 + lt).skip(1) =~= rest0.skip(1) + lt);
                    }/*-*/
                    return Some(item);
                }
                /*+*/proof { assert(rest0 + lt =~= lt); }/*-*/

                self.lo_reader = None;
                self.lo += 1;

                if self.lo <= self.hi {
                    let scanner =
                        fail_iter!(self.tables.get(self.lo).expect("should exist").scan());

                    self.lo_reader = Some(scanner);
                }
            } else {
                return None;
            }
        }
    }
//@ END
}

} // verus!
fn main() {}
