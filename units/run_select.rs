//@ UNIT run_select
// Table selection inside a run (src/version/run.rs), what leveled compaction picks its inputs with: `aggregate_key_range` covers
// every table of the run; `get_overlapping(r)` returns a contiguous slice that contains EVERY table overlapping r (none is left out
// of a merge); `get_contained(r)` returns only tables whose whole key range lies inside r.  Obligations C07.12, C01.30
use vstd::prelude::*;
use vstd::std_specs::cmp::*;
verus! {
global size_of usize == 8;

//@ INCLUDE prelude/key.rs

/// KeyRange (src/key_range.rs; min / max / contains_range are obligations C03.2 of unit ranges)
struct KeyRange(UserKey, UserKey);
impl KeyRange {
    spec fn lo(&self) -> int { self.0.rank() }
    spec fn hi(&self) -> int { self.1.rank() }
    spec fn has(&self, k: int) -> bool { self.lo() <= k <= self.hi() }
    fn new(range: (UserKey, UserKey)) -> (r: Self) ensures r.lo() == range.0.rank(), r.hi() == range.1.rank() { KeyRange(range.0, range.1) }
    fn min(&self) -> (r: &UserKey) ensures r == &self.0 { &self.0 }
    fn max(&self) -> (r: &UserKey) ensures r == &self.1 { &self.1 }
    #[verifier::external_body]
    fn contains_range(&self, other: &Self) -> (r: bool) ensures r == (self.lo() <= other.lo() && other.hi() <= self.hi()) { unimplemented!() }
    #[verifier::external_body]
    fn overlaps_with_key_range(&self, other: &Self) -> (r: bool) ensures r == (self.hi() >= other.lo() && self.lo() <= other.hi()) { unimplemented!() }
    #[verifier::external_body]
    fn contains_key(&self, key: &UserKey) -> (r: bool) ensures r == self.has(key.rank()) { unimplemented!() }
}
trait Ranged {
    spec fn kr(&self) -> KeyRange;
    fn key_range(&self) -> (r: &KeyRange) ensures *r == self.kr();
}
/// the range `key_range.min()..=key_range.max()`
struct RangeIncl { ghost lo: int, ghost hi: int }
impl RangeIncl { spec fn has(&self, k: int) -> bool { self.lo <= k <= self.hi } }
#[verifier::external_body]
fn range_incl(a: &UserKey, b: &UserKey) -> (r: RangeIncl) ensures r.lo == a.rank(), r.hi == b.rank() { unimplemented!() }

//@ FROM src/version/run.rs :: - :: struct Run
struct Run<T: Ranged>(Vec<T>);
//@ END
/// `<[T]>::first / last`, `slice.get(lo..=hi)`, `&[]`
#[verifier::external_body]
fn slice_get_incl<T>(s: &[T], lo: usize, hi: usize) -> (r: Option<&[T]>)
    ensures lo <= hi < s@.len() ==> r is Some && r->Some_0@ == s@.subrange(lo as int, hi + 1), !(lo <= hi + 1 && hi < s@.len()) ==> r is None,
        r is Some ==> lo <= hi + 1 && r->Some_0@ == s@.subrange(lo as int, hi + 1)
{ unimplemented!() }
#[verifier::external_body]
fn empty_slice<'a, T>() -> (r: &'a [T]) ensures r@ == Seq::<T>::empty() { unimplemented!() }
#[verifier::external_body]
fn unwrap_or_default_slice<'a, T>(o: Option<&'a [T]>) -> (r: &'a [T]) ensures o is Some ==> r == o->Some_0, o is None ==> r@.len() == 0 { unimplemented!() }

/// `s.iter().position(&pred).unwrap_or(s.len())`: the first index where pred holds, else the length
#[verifier::external_body]
fn first_index<T, F: Fn(&T) -> bool>(s: &[T], pred: &F) -> (r: usize)
    requires forall|i: int| 0 <= i < s@.len() ==> call_requires(*pred, (&#[trigger] s@[i],))
    ensures r <= s@.len(), forall|i: int| 0 <= i < r ==> call_ensures(*pred, (&#[trigger] s@[i],), false), r < s@.len() ==> call_ensures(*pred, (&s@[r as int],), true)
{ unimplemented!() }
/// `s.iter().rposition(&pred).map_or(start, |i| i + 1)`: one past the last index where pred holds, else `start`
#[verifier::external_body]
fn after_last_index<T, F: Fn(&T) -> bool>(s: &[T], pred: &F, start: usize) -> (r: usize)
    requires forall|i: int| 0 <= i < s@.len() ==> call_requires(*pred, (&#[trigger] s@[i],))
    ensures r <= s@.len() || r == start,
        (exists|i: int| 0 <= i < s@.len() && call_ensures(*pred, (&#[trigger] s@[i],), true)) ==> 0 < r <= s@.len() && call_ensures(*pred, (&s@[r as int - 1],), true) && forall|i: int| r <= i < s@.len() ==> call_ensures(*pred, (&#[trigger] s@[i],), false),
        (forall|i: int| 0 <= i < s@.len() ==> call_ensures(*pred, (&#[trigger] s@[i],), false)) ==> r == start,
{ unimplemented!() }
/// `s.get(a..b).expect(..)`: panics when out of range - the precondition is proved
#[verifier::external_body]
fn slice_range<T>(s: &[T], a: usize, b: usize) -> (r: &[T]) requires a <= b <= s@.len() ensures r@ == s@.subrange(a as int, b as int) { unimplemented!() }
/// the predicate is a pure function of the element
spec fn pure_pred<T, F: Fn(&T) -> bool>(pred: F, p: spec_fn(T) -> bool) -> bool {
    (forall|x: &T| #[trigger] call_requires(pred, (x,))) && (forall|x: &T, b: bool| #[trigger] call_ensures(pred, (x,), b) ==> b == p(*x))
}

//@ FROM src/version/run.rs :: impl < T : Ranged > Run < T > :: fn trim_slice :: OBL C07.12
//@ SUBST `s . iter ( ) . position ( & pred ) . unwrap_or ( s . len ( ) )` ==> `first_index(s, &pred)`
//@ SUBST `s . iter ( ) . rposition ( & pred ) . map_or ( start , | i | i + 1 )` ==> `after_last_index(s, &pred, start)`
//@ SUBST `s . get ( start .. end ) . expect ( "should be in range" )` ==> `slice_range(s, start, end)`
fn trim_slice<T, F>(s: &[T], pred: F/*+*/, Ghost(p): Ghost<spec_fn(T) -> bool>/*-*/) -> /*+*/(r:/*-*/ &[T]/*+*/)/*-*/
where
    F: Fn(&T) -> bool/*+*/,
    requires pure_pred(pred, p)
    ensures exists|a: int| #[trigger] piece_at(s@, r@, a),
        // trimmed at both ends: the first and the last element kept satisfy the predicate
        r@.len() > 0 ==> p(r@[0]) && p(r@.last())/*-*/,
{
    // find first index where pred holds
    let start = first_index(s, &pred);

    // find last index where pred holds
    let end = after_last_index(s, &pred, start);
    /*+*/proof {
        if start < s@.len() { assert(call_ensures(pred, (&s@[start as int],), true)); assert(end > start) by { if end <= start { assert(call_ensures(pred, (&s@[start as int],), false)); } } }
        else { assert forall|i: int| 0 <= i < s@.len() implies call_ensures(pred, (&#[trigger] s@[i],), false) by {} }
        assert(piece_at(s@, s@.subrange(start as int, end as int), start as int));
    }/*-*/

    slice_range(s, start, end)
}
//@ END

/// `piece` is the part of `all` that starts at index lo
spec fn piece_at<T>(all: Seq<T>, piece: Seq<T>, lo: int) -> bool { 0 <= lo && lo + piece.len() <= all.len() && piece == all.subrange(lo, lo + piece.len()) }

impl<T: Ranged> Run<T> {
    /// run invariant (C07): non-empty, tables sorted and pairwise disjoint, every range non-empty
    spec fn wf(&self) -> bool {
        &&& self.0@.len() > 0
        &&& forall|i: int| 0 <= i < self.0@.len() ==> (#[trigger] self.0@[i]).kr().lo() <= self.0@[i].kr().hi()
        &&& forall|i: int, j: int| 0 <= i < j < self.0@.len() ==> (#[trigger] self.0@[i]).kr().hi() < (#[trigger] self.0@[j]).kr().lo()
    }
    /// Run::range_overlap_indexes for an inclusive range (contract proved in unit ranges, C03.3): None => no table holds a key of the
    /// range; Some((lo, hi)) => every table holding a key of the range has its index in lo..=hi
    #[verifier::external_body]
    fn range_overlap_indexes(&self, range: &RangeIncl) -> (r: Option<(usize, usize)>)
        requires self.wf()
        ensures match r {
            None => forall|i: int, k: int| 0 <= i < self.0@.len() && (#[trigger] self.0@[i]).kr().has(k) ==> !#[trigger] range.has(k),
            Some((lo, hi)) => lo <= hi < self.0@.len()
                && forall|i: int, k: int| 0 <= i < self.0@.len() && (#[trigger] self.0@[i]).kr().has(k) && #[trigger] range.has(k) ==> lo <= i <= hi,
        }
    { unimplemented!() }

//@ FROM src/version/run.rs :: impl < T : Ranged > Run < T > :: fn aggregate_key_range :: OBL C07.12, C01.30
//@ SUBST `self . first ( )` ==> `self.0.first()`
//@ SUBST `self . last ( )` ==> `self.0.last()`
    fn aggregate_key_range(&self) -> /*+*/(r:/*-*/ KeyRange/*+*/)
        requires self.wf()
        ensures r.lo() == self.0@[0].kr().lo(), r.hi() == self.0@.last().kr().hi(),
            // it covers every table of the run
            forall|i: int| 0 <= i < self.0@.len() ==> r.lo() <= (#[trigger] self.0@[i]).kr().lo() && self.0@[i].kr().hi() <= r.hi()/*-*/
    {
        let lo = self.0.first().expect("run should never be empty");

        let hi = self.0.last().expect("run should never be empty");

        KeyRange::new((lo.key_range().min().clone(), hi.key_range().max().clone()))
    }
//@ END

//@ FROM src/version/run.rs :: impl < T : Ranged > Run < T > :: fn get_overlapping :: OBL C07.12, C01.30
//@ SUBST `let range = key_range . min ( ) ..= key_range . max ( ) ;` ==> `let range = range_incl(key_range.min(), key_range.max());`
//@ SUBST `self . range_overlap_indexes :: < crate :: Slice , _ > ( & range )` ==> `self.range_overlap_indexes(&range)`
//@ SUBST `return & [ ] ;` ==> `return empty_slice();`
//@ SUBST `self . get ( lo ..= hi ) . unwrap_or_default ( )` ==> `unwrap_or_default_slice(slice_get_incl(self.0.as_slice(), lo, hi))`
    fn get_overlapping<'a>(&'a self, key_range: &'a KeyRange) -> /*+*/(r:/*-*/ &'a [T]/*+*/)
        requires self.wf(), key_range.lo() <= key_range.hi()
        ensures
            // a contiguous piece of the run that contains every table overlapping the range
            exists|lo: int| #[trigger] piece_at(self.0@, r@, lo)
                && forall|i: int, k: int| 0 <= i < self.0@.len() && (#[trigger] self.0@[i]).kr().has(k) && #[trigger] key_range.has(k) ==> lo <= i < lo + r@.len()/*-*/
    {
        let range = range_incl(key_range.min(), key_range.max());

        let Some((lo, hi)) = self.range_overlap_indexes(&range) else {
            /*+*/proof { assert(self.0@.subrange(0, 0) =~= Seq::<T>::empty()); assert forall|i: int, k: int| 0 <= i < self.0@.len() && (#[trigger] self.0@[i]).kr().has(k) && #[trigger] key_range.has(k) implies false by { assert(range.has(k)); } }
            proof { assert(piece_at(self.0@, Seq::<T>::empty(), 0)); }/*-*/
            return empty_slice();
        };

        /*+*/proof { assert forall|i: int, k: int| 0 <= i < self.0@.len() && (#[trigger] self.0@[i]).kr().has(k) && #[trigger] key_range.has(k) implies lo <= i < lo + (hi + 1 - lo) by { assert(range.has(k)); } }
        proof { assert(piece_at(self.0@, self.0@.subrange(lo as int, hi + 1), lo as int)); }/*-*/
        unwrap_or_default_slice(slice_get_incl(self.0.as_slice(), lo, hi))
    }
//@ END

//@ FROM src/version/run.rs :: impl < T : Ranged > Run < T > :: fn get_contained :: OBL C07.12
//@ SUBST `fn trim_slice < T , F > ( s : & [ T ] , pred : F ) -> & [ T ] where F : Fn ( & T ) -> bool , { $1 }` ==> ``
//@ SUBST `let range = key_range . min ( ) ..= key_range . max ( ) ;` ==> `let range = range_incl(key_range.min(), key_range.max());`
//@ SUBST `self . range_overlap_indexes :: < crate :: Slice , _ > ( & range )` ==> `self.range_overlap_indexes(&range)`
//@ SUBST `return & [ ] ;` ==> `return empty_slice();`
//@ SUBST `self . get ( lo ..= hi )` ==> `slice_get_incl(self.0.as_slice(), lo, hi)`
//@ SUBST `. unwrap_or_default ( )` ==> `.unwrap_or(empty_slice())`
    fn get_contained<'a>(&'a self, key_range: &KeyRange) -> /*+*/(r:/*-*/ &'a [T]/*+*/)
        requires self.wf(), key_range.lo() <= key_range.hi()
        ensures
            // only tables that lie completely inside the range are returned (a contiguous piece of the run)
            forall|i: int| 0 <= i < r@.len() ==> key_range.lo() <= (#[trigger] r@[i]).kr().lo() && r@[i].kr().hi() <= key_range.hi(),
            exists|a: int| #[trigger] piece_at(self.0@, r@, a),/*-*/
    {

        let range = range_incl(key_range.min(), key_range.max());

        let Some((lo, hi)) = self.range_overlap_indexes(&range) else {
            /*+*/proof { assert(self.0@.subrange(0, 0) =~= Seq::<T>::empty()); assert(piece_at(self.0@, Seq::<T>::empty(), 0)); }/*-*/
            return empty_slice();
        };

        /*+*/let ghost p = |x: T| key_range.lo() <= x.kr().lo() && x.kr().hi() <= key_range.hi();
        let ghost sub = self.0@.subrange(lo as int, hi + 1);
        proof {
            assert forall|o: Seq<T>, a: int| #[trigger] piece_at(sub, o, a) implies piece_at(self.0@, o, lo + a) by {
                assert(sub.subrange(a, a + o.len()) =~= self.0@.subrange(lo + a, lo + a + o.len()));
            }
            assert(self.0@.subrange(0, 0) =~= Seq::<T>::empty()); assert(piece_at(self.0@, Seq::<T>::empty(), 0));
        }/*-*/
        slice_get_incl(self.0.as_slice(), lo, hi)
            .map(|slice/*+*/: &'a [T]| -> (o: &'a [T]) requires slice@ == sub ensures (exists|a: int/*-*/| /*+*/#[trigger] piece_at(sub, o@, a)) && (o@.len() > 0 ==> p(o@[0]) && p(o@.last())) {/*-*/ trim_slice(slice, |x/*+*/: &T/*-*/| /*+*/-> (b: bool) ensures b == p(*x) {/*-*/ key_range.contains_range(x.key_range()/*+*/) }, Ghost(p/*-*/)) /*+*/}/*-*/)
            .unwrap_or(empty_slice())
    }
//@ END
}

//@ FROM src/table/util.rs :: - :: fn aggregate_run_key_range :: OBL C07.12, C01.30
//@ SUBST `& [ Table ]` ==> `&[T]`
/// the free-standing twin of Run::aggregate_key_range that leveled compaction applies to a window of a run
fn aggregate_run_key_range/*+*/<T: Ranged>/*-*/(tables: &[T]) -> /*+*/(r:/*-*/ KeyRange/*+*/)
    requires tables@.len() > 0
    ensures r.lo() == tables@[0].kr().lo(), r.hi() == tables@.last().kr().hi()/*-*/
{
    let lo = tables.first().expect("run should never be empty");
    let hi = tables.last().expect("run should never be empty");
    KeyRange::new((lo.key_range().min().clone(), hi.key_range().max().clone()))
}
//@ END
}
fn main() {}
