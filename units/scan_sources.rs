//@ UNIT scan_sources
// TreeIter::create_range (src/range.rs), assembly of the merge sources: a scan merges EVERY place an entry of the range can live -
// every run of every level of the pinned version (a single-table run only when its key range overlaps, a multi-table run unless
// RunReader::new finds no overlapping table), every sealed memtable, the active memtable and the ephemeral memtable if there is
// one - each restricted to the scan's range and filtered by the snapshot seqno (the ephemeral one by its own).  Nothing else is a
// source.  Obligations C03.15, C01.26, C02.15
use vstd::prelude::*;
use vstd::std_specs::iter::*;
verus! {
global size_of usize == 8;
type SeqNo = u64;

//@ INCLUDE prelude/seqiter.rs

// ---------------- prelude (TRUSTED) ----------------
/// the widened scan range `(lo, hi)` of internal keys (unit range_bounds, C03.11); opaque here
#[verifier::external_body] struct IRange { p: u8 }
impl IRange { #[verifier::external_body] fn clone(&self) -> (r: Self) ensures r == *self { unimplemented!() } }
/// the user-key view of the range handed to tables and runs: `(range.start_bound().map(|x| &x.user_key).cloned(), ..)` and the
/// borrowed form `(.. .map(|x| &*x.user_key), ..)` (rule R12: both name the same user-key range)
struct URange { ghost of: IRange }
#[verifier::external_body] fn user_range(r: &IRange) -> (u: URange) ensures u.of == *r { unimplemented!() }
#[verifier::external_body] fn user_range_ref(r: &IRange) -> (u: URange) ensures u.of == *r { unimplemented!() }

/// where a source reads from
pub ghost enum Place { Run(int), Sealed(int), Active, Ephemeral }
/// a (filtered) source iterator: its place, range, and the seqno its entries are filtered by (None: unfiltered)
struct Src { ghost place: Place, ghost range: IRange, ghost filt: Option<SeqNo>, ghost boxed: bool }
impl Src {
    /// `.filter(move |item| ..seqno_filter(item.key.seqno, s)..)` - the closure bodies are obligations C02.8 (unit range_filters)
    #[verifier::external_body] fn filter_seqno(self, s: SeqNo) -> (r: Src) ensures r.place == self.place, r.range == self.range, r.filt == Some(s), r.boxed == self.boxed { unimplemented!() }
    /// `.map(Ok)`
    #[verifier::external_body] fn map_ok(self) -> (r: Src) ensures r == self { unimplemented!() }
}
/// `Box::new(iter)` as BoxedIterator
#[verifier::external_body] fn boxed(s: Src) -> (r: Src) ensures r.place == s.place, r.range == s.range, r.filt == s.filt, r.boxed { unimplemented!() }

struct Table { ghost run: int }
/// whether the table's key range overlaps the user range (Table::check_key_range_overlap, KeyRange arithmetic: unit ranges)
uninterp spec fn table_overlaps(run: int, r: IRange) -> bool;
impl Table {
    #[verifier::external_body] fn check_key_range_overlap(&self, u: &URange) -> (r: bool) ensures r == table_overlaps(self.run, u.of) { unimplemented!() }
    /// Table::range(user range) (unit table_iter)
    #[verifier::external_body] fn range(&self, u: URange) -> (r: Src) ensures r.place == Place::Run(self.run), r.range == u.of, r.filt is None, !r.boxed { unimplemented!() }
}
/// Arc<Run<Table>>: run number `idx` of the version (level by level, run by run)
struct RunRef { ghost idx: int, ghost n: nat }
impl RunRef {
    #[verifier::external_body] fn len(&self) -> (r: usize) ensures r == self.n { unimplemented!() }
    #[verifier::external_body] fn first(&self) -> (r: Option<&Table>) ensures self.n > 0 ==> r is Some && r->Some_0.run == self.idx, self.n == 0 ==> r is None { unimplemented!() }
    #[verifier::external_body] fn clone(&self) -> (r: Self) ensures r == *self { unimplemented!() }
}
/// some table of the run overlaps the range (RunReader::new returns None exactly when none does: unit run_reader / ranges, C03.3)
uninterp spec fn run_overlaps(run: int, r: IRange) -> bool;
struct RunReader { p: u8 }
impl RunReader {
    #[verifier::external_body]
    fn new(run: RunRef, u: URange) -> (r: Option<Src>)
        ensures r is None <==> !run_overlaps(run.idx, u.of), r is Some ==> r->Some_0.place == Place::Run(run.idx) && r->Some_0.range == u.of && r->Some_0.filt is None && !r->Some_0.boxed
    { unimplemented!() }
}
struct Memtable { ghost place: Place }
impl Memtable {
    #[verifier::external_body] fn range(&self, r: IRange) -> (s: Src) ensures s.place == self.place, s.range == r, s.filt is None, !s.boxed { unimplemented!() }
}
struct Version { ghost runs: Seq<RunRef> }
impl Version {
    /// `iter_levels().flat_map(|lvl| lvl.iter())`: every run of every level, top level first
    #[verifier::external_body] fn iter_runs(&self) -> (r: SeqIter<&RunRef>) ensures r.rest().len() == self.runs.len(), forall|i: int| 0 <= i < self.runs.len() ==> *(#[trigger] r.rest()[i]) == self.runs[i] { unimplemented!() }
    spec fn wf(&self) -> bool { forall|i: int| 0 <= i < self.runs.len() ==> (#[trigger] self.runs[i]).idx == i }
}
struct SealedMemtables { ghost n: nat }
impl SealedMemtables {
    #[verifier::external_body] fn iter(&self) -> (r: SeqIter<&Memtable>) ensures r.rest().len() == self.n, forall|i: int| 0 <= i < self.n ==> (#[trigger] r.rest()[i]).place == Place::Sealed(i) { unimplemented!() }
}
struct VersionBox { version: Version }
struct SuperVersion { version: VersionBox, sealed_memtables: SealedMemtables, active_memtable: Memtable, seqno: SeqNo }
struct IterState { version: SuperVersion, ephemeral: Option<(Memtable, SeqNo)> }
impl IterState {
    spec fn wf(&self) -> bool { self.version.version.version.wf() && self.version.active_memtable.place == Place::Active && (self.ephemeral is Some ==> self.ephemeral->Some_0.0.place == Place::Ephemeral) }
}

/// a source for `place` over `range`, boxed and filtered by `s`
spec fn has_src(iters: Seq<Src>, place: Place, range: IRange, s: SeqNo) -> bool {
    exists|k: int| 0 <= k < iters.len() && (#[trigger] iters[k]).place == place && iters[k].range == range && iters[k].filt == Some(s) && iters[k].boxed
}
/// every source is boxed, over the scan's range, filtered, and reads from a place that exists
spec fn all_ok(iters: Seq<Src>, lock: IterState, range: IRange, seqno: SeqNo) -> bool {
    forall|k: int| 0 <= k < iters.len() ==> (#[trigger] iters[k]).boxed && iters[k].range == range && (match iters[k].place {
        Place::Run(i) => 0 <= i < lock.version.version.version.runs.len() && iters[k].filt == Some(seqno),
        Place::Sealed(i) => 0 <= i < lock.version.sealed_memtables.n && iters[k].filt == Some(seqno),
        Place::Active => iters[k].filt == Some(seqno),
        Place::Ephemeral => lock.ephemeral is Some && iters[k].filt == Some(lock.ephemeral->Some_0.1),
    })
}
spec fn sealed_covered(iters: Seq<Src>, i: int, range: IRange, seqno: SeqNo) -> bool { has_src(iters, Place::Sealed(i), range, seqno) }
/// run i is a source unless no table of it can hold a key of the range
spec fn run_covered(iters: Seq<Src>, lock: IterState, i: int, range: IRange, seqno: SeqNo) -> bool {
    let run = lock.version.version.version.runs[i];
    has_src(iters, Place::Run(i), range, seqno) || run.n == 0 || (run.n == 1 && !table_overlaps(i, range)) || (run.n > 1 && !run_overlaps(i, range))
}

proof fn lemma_has_mono(a: Seq<Src>, b: Seq<Src>, place: Place, range: IRange, s: SeqNo)
    requires has_src(a, place, range, s), a.len() <= b.len(), forall|k: int| 0 <= k < a.len() ==> a[k] == b[k]
    ensures has_src(b, place, range, s)
{ let k = choose|k: int| 0 <= k < a.len() && (#[trigger] a[k]).place == place && a[k].range == range && a[k].filt == Some(s) && a[k].boxed; assert(b[k] == a[k]); }

proof fn lemma_run_mono(a: Seq<Src>, b: Seq<Src>, lock: IterState, i: int, range: IRange, s: SeqNo)
    requires run_covered(a, lock, i, range, s), a.len() <= b.len(), forall|k: int| 0 <= k < a.len() ==> a[k] == b[k]
    ensures run_covered(b, lock, i, range, s)
{ if has_src(a, Place::Run(i), range, s) { lemma_has_mono(a, b, Place::Run(i), range, s); } }
proof fn lemma_sealed_mono(a: Seq<Src>, b: Seq<Src>, i: int, range: IRange, s: SeqNo)
    requires sealed_covered(a, i, range, s), a.len() <= b.len(), forall|k: int| 0 <= k < a.len() ==> a[k] == b[k]
    ensures sealed_covered(b, i, range, s)
{ lemma_has_mono(a, b, Place::Sealed(i), range, s); }

//@ SUBST `range . start_bound ( ) . map ( | x | & * x . user_key ) , range . end_bound ( ) . map ( | x | & * x . user_key ) ,` ==> `user_range_ref(&range)`
//@ SUBST `range . start_bound ( ) . map ( | x | & x . user_key ) . cloned ( ) , range . end_bound ( ) . map ( | x | & x . user_key ) . cloned ( ) ,` ==> `user_range(&range)`
//@ SUBST `( user_range_ref ( & range ) )` ==> `user_range_ref(&range)`
//@ SUBST `( user_range ( & range ) )` ==> `user_range(&range)`
//@ WRAPPER_BEGIN
/// wrapper (generated) around the statements of the closure of TreeIter::create_range that collect the merge sources
fn collect_sources(lock: &IterState, range: IRange, seqno: SeqNo) -> (iters: Vec<Src>)
    requires lock.wf()
    ensures
        all_ok(iters@, *lock, range, seqno),
        // completeness: every run that can hold a key of the range, every sealed memtable, the active and the ephemeral memtable
        forall|i: int| 0 <= i < lock.version.version.version.runs.len() ==> #[trigger] run_covered(iters@, *lock, i, range, seqno),
        forall|i: int| 0 <= i < lock.version.sealed_memtables.n ==> #[trigger] sealed_covered(iters@, i, range, seqno),
        has_src(iters@, Place::Active, range, seqno),
        lock.ephemeral is Some ==> has_src(iters@, Place::Ephemeral, range, lock.ephemeral->Some_0.1),
{
//@ FROM src/range.rs :: impl TreeIter :: fn create_range :: CLOSURE 1 `| lock | {` :: STMTS `let mut iters` .. `<let merged =` :: OBL C03.15, C01.26, C02.15
//@ SUBST `Vec < BoxedIterator < '_ > >` ==> `Vec<Src>`
//@ SUBST `for run in lock . version . version . iter_levels ( ) . flat_map ( | lvl | lvl . iter ( ) ) {` ==> `let mut iter__ = lock.version.version.version.iter_runs(); loop { let Some(run) = iter__.next() else { break; };`
//@ SUBST `for memtable in lock . version . sealed_memtables . iter ( ) {` ==> `let mut iter2__ = lock.version.sealed_memtables.iter(); loop { let Some(memtable) = iter2__.next() else { break; };`
//@ SUBST `. filter ( move | item | $1 )` ==> `.filter_seqno(seqno)` :: FORBID iters push boxed
//@ SUBST `. map ( Ok )` ==> `.map_ok()`
//@ SUBST `Box :: new ( $1 )` ==> `boxed($1)`
//@ SUBST `filter_seqno ( seqno ) . map_ok ( ) , ) ; iters . push ( iter ) ;` ==> `filter_seqno(*seqno).map_ok(), ); iters.push(iter);`
    /*+*/let ghost sn0 = seqno;/*-*/
    let mut iters: Vec<Src> = Vec::with_capacity(5);

    /*+*/let ghost runs = lock.version.version.version.runs; let ghost mut c: int = 0;
    proof { assert(runs.skip(0) =~= runs); }/*-*/
    let mut iter__ = lock.version.version.version.iter_runs(); loop
        /*+*/invariant lock.wf(), runs == lock.version.version.version.runs, 0 <= c <= runs.len(),
            iter__.rest().len() == runs.len() - c, forall|i: int| 0 <= i < runs.len() - c ==> *(#[trigger] iter__.rest()[i]) == runs[c + i],
            all_ok(iters@, *lock, range, seqno),
            forall|i: int| 0 <= i < c ==> #[trigger] run_covered(iters@, *lock, i, range, seqno),
        ensures c == runs.len(),
        decreases iter__.rest().len(),/*-*/
    { let Some(run) = iter__.next() else { break; };
        /*+*/let ghost it0 = iters@;
        proof { assert(*run == runs[c]); }/*-*/
        match run.len() {
            0 => {
                // Do nothing
            }
            1 => {
                let table = run.first().expect("should exist");

                if table.check_key_range_overlap(&user_range_ref(&range)) {
                    let reader = table
                        .range(user_range(&range))
                        .filter_seqno(seqno);

                    iters.push(boxed(reader));
                }
            }
            _ => {
                if let Some(reader) = RunReader::new(
                    run.clone(),
                    user_range(&range),
                ) {
                    iters.push(boxed(reader.filter_seqno(seqno)));
                }
            }
        }
        /*+*/proof {
            assert forall|i: int| 0 <= i < c + 1 implies #[trigger] run_covered(iters@, *lock, i, range, seqno) by {
                if i < c { lemma_run_mono(it0, iters@, *lock, i, range, seqno); }
                else if iters@.len() > it0.len() { assert(iters@[it0.len() as int].place == Place::Run(c)); }
            }
            c = c + 1;
        }/*-*/
    }

    // Sealed memtables
    /*+*/let ghost n = lock.version.sealed_memtables.n as int; let ghost mut d: int = 0;
    let ghost it1 = iters@;/*-*/
    let mut iter2__ = lock.version.sealed_memtables.iter(); loop
        /*+*/invariant lock.wf(), n == lock.version.sealed_memtables.n, 0 <= d <= n,
            iter2__.rest().len() == n - d, forall|i: int| 0 <= i < n - d ==> (#[trigger] iter2__.rest()[i]).place == Place::Sealed(d + i),
            all_ok(iters@, *lock, range, seqno),
            forall|i: int| 0 <= i < runs.len() ==> #[trigger] run_covered(iters@, *lock, i, range, seqno), runs == lock.version.version.version.runs,
            forall|i: int| 0 <= i < d ==> #[trigger] sealed_covered(iters@, i, range, seqno),
        ensures d == n,
        decreases iter2__.rest().len(),/*-*/
    { let Some(memtable) = iter2__.next() else { break; };
        /*+*/let ghost it0 = iters@;/*-*/
        let iter = memtable.range(range.clone());

        iters.push(boxed(
            iter.filter_seqno(seqno)
                .map_ok(),
        ));
        /*+*/proof {
            assert(iters@[it0.len() as int].place == Place::Sealed(d));
            assert forall|i: int| 0 <= i < runs.len() implies #[trigger] run_covered(iters@, *lock, i, range, seqno) by { lemma_run_mono(it0, iters@, *lock, i, range, seqno); }
            assert forall|i: int| 0 <= i < d + 1 implies #[trigger] sealed_covered(iters@, i, range, seqno) by { if i < d { lemma_sealed_mono(it0, iters@, i, range, seqno); } }
            d = d + 1;
        }/*-*/
    }
    /*+*/;/*-*/

    // Active memtable
    {
        /*+*/let ghost it0 = iters@;/*-*/
        let iter = lock.version.active_memtable.range(range.clone());

        iters.push(boxed(
            iter.filter_seqno(seqno)
                .map_ok(),
        ));
        /*+*/proof {
            assert(iters@[it0.len() as int].place == Place::Active);
            assert forall|i: int| 0 <= i < runs.len() implies #[trigger] run_covered(iters@, *lock, i, range, seqno) by { lemma_run_mono(it0, iters@, *lock, i, range, seqno); }
            assert forall|i: int| 0 <= i < n implies #[trigger] sealed_covered(iters@, i, range, seqno) by { lemma_sealed_mono(it0, iters@, i, range, seqno); }
        }/*-*/
    }

    if let Some((mt, seqno)) = &lock.ephemeral {
        /*+*/let ghost it0 = iters@; let ghost sn = lock.version.seqno;/*-*/
        let iter = boxed(
            mt.range(range)
                .filter_seqno(*seqno)
                .map_ok(),
        );
        iters.push(iter);
        /*+*/proof {
            assert(iters@[it0.len() as int].place == Place::Ephemeral);
            assert forall|i: int| 0 <= i < runs.len() implies #[trigger] run_covered(iters@, *lock, i, range, sn0) by { lemma_run_mono(it0, iters@, *lock, i, range, sn0); }
            assert forall|i: int| 0 <= i < n implies #[trigger] sealed_covered(iters@, i, range, sn0) by { lemma_sealed_mono(it0, iters@, i, range, sn0); }
            lemma_has_mono(it0, iters@, Place::Active, range, sn0);
        }/*-*/
    }
    /*+*/iters/*-*/
//@ END
}
//@ WRAPPER_END
}
fn main() {}
