//@ UNIT scan_visibility
// The last stage of every scan (`TreeIter::create_range`, src/range.rs): after the k-way merge and the MVCC stream have picked the newest
// visible version of each key, an entry is shown to the caller exactly if it is not a tombstone - strong or weak: a weakly deleted key is
// as invisible to scans as a deleted one - and an error item is always passed on.  (closure-level extraction, R10c)
// Obligations C13.5, C01.38, C10.14
use vstd::prelude::*;
use vstd::std_specs::cmp::*;
verus! {
//@ INCLUDE prelude/key.rs
//@ INCLUDE prelude/entry.rs
type Item = Result<InternalValue, Error>;
/// what the scan shows: errors, and entries that are not dead
spec fn shown(x: Item) -> bool { match x { Ok(v) => !dead(v), Err(_) => true } }

//@ WRAPPER_BEGIN
/// wrapper (generated): the filter applied to the MVCC stream of a scan
fn visible_filter(it: &Item) -> (b: bool)
    ensures b == shown(*it)
{
    let f =
//@ FROM src/range.rs :: impl TreeIter :: fn create_range :: CLOSURE 1 `| x | match x` :: OBL C13.5, C01.38, C10.14
        |x/*+*/: &Item/*-*/| /*+*/-> (b: bool) ensures b == shown(*x) {/*-*/ match x {
                Ok(value) => !value.key.is_tombstone(),
                Err(_) => true,
            }/*+*/ }/*-*/
//@ END
    ;
    f(it)
}
//@ WRAPPER_END
}
fn main() {}
