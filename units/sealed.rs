#![feature(allocator_api)]
//@ UNIT sealed
// tree::sealed::SealedMemtables (src/tree/sealed.rs): add appends (newest last), remove takes out exactly the memtable with the
// given id and keeps the order of the others, contains is membership by id.  These are the contracts units register_tables,
// tree_ops and flush assume.  Obligation C16.11
use vstd::prelude::*;
use std::sync::Arc;
verus! {

global size_of usize == 8;
type MemtableId = u64;
struct Memtable { id: MemtableId, p: u8 }
impl Memtable { fn id(&self) -> (r: MemtableId) ensures r == self.id { self.id } }
/// `#[derive(Clone)]` on SealedMemtables(Vec<Arc<Memtable>>): the same list of handles
#[verifier::external_body] fn clone_list(v: &Vec<Arc<Memtable>>) -> (r: Vec<Arc<Memtable>>) ensures r@ == v@ { unimplemented!() }
/// Vec::retain with the closure of the source (std): keeps exactly the elements the closure accepts, in order
#[verifier::external_body]
fn retain_mt<F: Fn(&Arc<Memtable>) -> bool>(v: &mut Vec<Arc<Memtable>>, f: F)
    requires forall|i: int| 0 <= i < old(v)@.len() ==> call_requires(f, (&#[trigger] old(v)@[i],))
    ensures exists|keep: spec_fn(Arc<Memtable>) -> bool| final(v)@ == old(v)@.filter(keep)
        && forall|i: int| 0 <= i < old(v)@.len() ==> call_ensures(f, (&#[trigger] old(v)@[i],), keep(old(v)@[i]))
{ unimplemented!() }
/// `self.0.iter().any(p)` (std)
#[verifier::external_body]
fn any_mt<F: Fn(&Arc<Memtable>) -> bool>(v: &Vec<Arc<Memtable>>, f: F) -> (r: bool)
    requires forall|i: int| 0 <= i < v@.len() ==> call_requires(f, (&#[trigger] v@[i],))
    ensures r ==> exists|i: int| 0 <= i < v@.len() && call_ensures(f, (&#[trigger] v@[i],), true), !r ==> forall|i: int| 0 <= i < v@.len() ==> call_ensures(f, (&#[trigger] v@[i],), false)
{ unimplemented!() }

proof fn lemma_filter_ext<A>(s: Seq<A>, p: spec_fn(A) -> bool, q: spec_fn(A) -> bool)
    requires forall|i: int| 0 <= i < s.len() ==> p(#[trigger] s[i]) == q(s[i])
    ensures s.filter(p) == s.filter(q)
    decreases s.len()
{
    reveal(Seq::filter);
    if s.len() > 0 { lemma_filter_ext(s.drop_last(), p, q); }
}

//@ FROM src/tree/sealed.rs :: - :: struct SealedMemtables
struct SealedMemtables(Vec<Arc<Memtable>>);
//@ END
impl SealedMemtables {
    fn clone(&self) -> (r: Self) ensures r.0@ == self.0@ { SealedMemtables(clone_list(&self.0)) }

//@ FROM src/tree/sealed.rs :: impl SealedMemtables :: fn add :: OBL C16.11
    fn add(&self, memtable: Arc<Memtable>) -> /*+*/(r:/*-*/ Self/*+*/) ensures r.0@ == self.0@.push(memtable)/*-*/ {
        let mut copy = self.clone();
        copy.0.push(memtable);
        copy
    }
//@ END
//@ FROM src/tree/sealed.rs :: impl SealedMemtables :: fn remove :: OBL C16.11
//@ SUBST `copy . 0 . retain ( $1 )` ==> `retain_mt(&mut copy.0, $1)`
    fn remove(&self, id_to_remove: MemtableId) -> /*+*/(r:/*-*/ Self/*+*/)
        ensures r.0@ == self.0@.filter(|mt: Arc<Memtable>| mt.id != id_to_remove)/*-*/
    {
        let mut copy = self.clone();
        retain_mt(&mut copy.0, |mt/*+*/: &Arc<Memtable>/*-*/| /*+*/-> (b: bool) ensures b == (mt.id != id_to_remove) {/*-*/ mt.id != id_to_remove /*+*/}/*-*/);
        /*+*/proof {
            let keep = choose|keep: spec_fn(Arc<Memtable>) -> bool| copy.0@ == self.0@.filter(keep) && forall|i: int| 0 <= i < self.0@.len() ==> keep(#[trigger] self.0@[i]) == (self.0@[i].id != id_to_remove);
            lemma_filter_ext(self.0@, keep, |mt: Arc<Memtable>| mt.id != id_to_remove);
        }/*-*/
        copy
    }
//@ END
//@ FROM src/tree/sealed.rs :: impl SealedMemtables :: fn contains :: OBL C16.11
//@ SUBST `self . 0 . iter ( ) . any ( $1 )` ==> `any_mt(&self.0, $1)`
    fn contains(&self, id: &MemtableId) -> /*+*/(r:/*-*/ bool/*+*/)
        ensures r == exists|i: int| 0 <= i < self.0@.len() && (#[trigger] self.0@[i]).id == *id/*-*/
    {
        any_mt(&self.0, |t/*+*/: &Arc<Memtable>/*-*/| /*+*/-> (b: bool) ensures b == (t.id == *id) {/*-*/ t.id() == *id /*+*/}/*-*/)
    }
//@ END
}

}
fn main() {}
