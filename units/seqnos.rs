//@ UNIT seqnos
// sequence-number filter and high-water marks.  Obligations: C02.1, C14.3, C18.2, C18.3
use vstd::prelude::*;
use vstd::std_specs::cmp::*;
use vstd::std_specs::iter::*;
verus! {

pub type SeqNo = u64;
//@ INCLUDE prelude/seqiter.rs
/// TRUSTED: Option::flatten
pub assume_specification<T> [std::option::Option::<std::option::Option<T>>::flatten] (o: std::option::Option<std::option::Option<T>>) -> (r: std::option::Option<T>)
    ensures r == (match o { Some(Some(x)) => Some(x), _ => None });
/// TRUSTED std contracts of the other Option combinators a high-water mark could be combined with (so that a reformulation stays decidable)
pub assume_specification<T> [std::option::Option::<T>::or] (a: std::option::Option<T>, b: std::option::Option<T>) -> (r: std::option::Option<T>)
    ensures r == (match a { Some(x) => Some(x), None => b });
pub assume_specification<T> [std::option::Option::<T>::xor] (a: std::option::Option<T>, b: std::option::Option<T>) -> (r: std::option::Option<T>)
    ensures r == (match (a, b) { (Some(x), None) => Some(x), (None, Some(y)) => Some(y), _ => None });

//@ FROM src/range.rs :: - :: fn seqno_filter :: OBL C02.1
fn seqno_filter(item_seqno: SeqNo, seqno: SeqNo) -> /*+*/(r: /*-*/bool/*+*/) ensures r == (item_seqno < seqno)/*-*/ {
    item_seqno < seqno
}
//@ END

// ---------------- prelude (R8): Table reduced to what the high-water mark reads ----------------
pub struct Metadata { pub seqnos: (SeqNo, SeqNo) }
pub struct TableInner { pub global_seqno: SeqNo }
pub struct Table { pub metadata: Metadata, pub inner: TableInner }
/// seqnos handed out by SequenceNumberCounter are < 2^63 (src/seqno.rs asserts it)
pub open spec fn seqno_ok(s: SeqNo) -> bool { s < 0x8000_0000_0000_0000 }
impl Table {
    pub open spec fn wf(&self) -> bool { seqno_ok(self.metadata.seqnos.0) && seqno_ok(self.metadata.seqnos.1) && seqno_ok(self.inner.global_seqno) }
    pub open spec fn hi(&self) -> int { self.metadata.seqnos.1 + self.inner.global_seqno }
    pub fn global_seqno(&self) -> (r: SeqNo) ensures r == self.inner.global_seqno { self.inner.global_seqno }

//@ FROM src/table/mod.rs :: impl Table :: fn get_highest_seqno :: OBL C18.2, C14.3
    fn get_highest_seqno(&self) -> /*+*/(r: /*-*/SeqNo/*+*/)
        requires self.wf(),
        ensures r == self.hi()/*-*/
    {
        self.metadata.seqnos.1 + self.global_seqno()
    }
//@ END
}

pub struct Version { pub tables: Vec<Table> }
impl Version {
    /// stands for levels -> runs -> tables flattening (Version::iter_tables)
    #[verifier::external_body]
    pub fn iter_tables(&self) -> (r: SeqIter<&Table>)
        ensures r.rest().len() == self.tables@.len(), forall|i: int| 0 <= i < self.tables@.len() ==> *(#[trigger] r.rest()[i]) == self.tables@[i],
            forall|i: int| 0 <= i < self.tables@.len() ==> #[trigger] self.tables@[i] == *r.rest()[i],
    { unimplemented!() }
}
pub struct Memtable { pub hi: Option<SeqNo> }
impl Memtable {
    /// contract MEM_HI: highest seqno inserted, None if empty (obligation C18.4, Kani)
    pub fn get_highest_seqno(&self) -> (r: Option<SeqNo>) ensures r == self.hi { self.hi }
}
pub struct SealedMemtables { pub v: Vec<Memtable> }
impl SealedMemtables {
    #[verifier::external_body]
    pub fn iter(&self) -> (r: SeqIter<&Memtable>)
        ensures r.rest().len() == self.v@.len(), forall|i: int| 0 <= i < self.v@.len() ==> *(#[trigger] r.rest()[i]) == self.v@[i],
            forall|i: int| 0 <= i < self.v@.len() ==> #[trigger] self.v@[i] == *r.rest()[i],
    { unimplemented!() }
}
pub struct SuperVersion { pub active_memtable: Memtable, pub sealed_memtables: SealedMemtables, pub version: Version }
/// stands for RwLock<SuperVersions>: read().expect(..).latest_version() yields the current super version
pub struct History { pub latest: SuperVersion }
pub struct Guard<'a> { pub h: &'a History }
impl History { pub fn read(&self) -> (r: Guard<'_>) ensures r.h == self { Guard { h: self } } }
impl<'a> Guard<'a> {
    pub fn expect(self, msg: &str) -> (r: &'a History) ensures r == self.h { self.h }
}
impl History { pub fn latest_version(&self) -> (r: &SuperVersion) ensures *r == self.latest { &self.latest } }

pub struct Tree { pub version_history: History }
pub open spec fn omax(a: Option<u64>, b: Option<u64>) -> Option<u64> {
    match (a, b) { (None, x) => x, (x, None) => x, (Some(x), Some(y)) => if x >= y { Some(x) } else { Some(y) } }
}
impl Tree {
    pub open spec fn tables(&self) -> Seq<Table> { self.version_history.latest.version.tables@ }
    pub fn current_version(&self) -> (r: &Version) ensures *r == self.version_history.latest.version { &self.version_history.latest_version().version }

//@ FROM src/tree/mod.rs :: AbstractTree for Tree :: fn get_highest_persisted_seqno :: OBL C18.3
    fn get_highest_persisted_seqno(&self) -> /*+*/(r: /*-*/Option<SeqNo>/*+*/)
        requires forall|i: int| 0 <= i < self.tables().len() ==> (#[trigger] self.tables()[i]).wf(),
        ensures
            // C18.3: the maximum over ALL tables of the current version; None iff there is no table
            self.tables().len() == 0 ==> r is None,
            self.tables().len() > 0 ==> r is Some
                && (exists|i: int| 0 <= i < self.tables().len() && (#[trigger] self.tables()[i]).hi() == r->0)
                && (forall|i: int| 0 <= i < self.tables().len() ==> (#[trigger] self.tables()[i]).hi() <= r->0),/*-*/
    {
        /*+*/proof {
            assert forall|t: &Table| self.tables().contains(*t) implies call_requires(Table::get_highest_seqno, (t,)) by {}
        }/*-*/
        self.current_version()
            .iter_tables()
            .map(Table::get_highest_seqno)
            .max()
    }
//@ END

//@ FROM src/tree/mod.rs :: AbstractTree for Tree :: fn get_highest_memtable_seqno :: OBL C18.3
    fn get_highest_memtable_seqno(&self) -> /*+*/(r: /*-*/Option<SeqNo>/*+*/)
        ensures
            // C18.3: max over the active and all sealed memtables (None < Some)
            opt_le(self.version_history.latest.active_memtable.hi, r),
            forall|i: int| 0 <= i < self.version_history.latest.sealed_memtables.v@.len() ==> opt_le((#[trigger] self.version_history.latest.sealed_memtables.v@[i]).hi, r),
            r == self.version_history.latest.active_memtable.hi
                || exists|i: int| 0 <= i < self.version_history.latest.sealed_memtables.v@.len() && r == (#[trigger] self.version_history.latest.sealed_memtables.v@[i]).hi,/*-*/
    {
        let version = self
            .version_history
            .read()
            .expect("lock is poisoned")
            .latest_version();

        let active = version.active_memtable.get_highest_seqno();

        let sealed = version
            .sealed_memtables
            .iter()
            .map(|mt/*+*/: &Memtable/*-*/| /*+*/-> (o: Option<SeqNo>) ensures o == mt.hi {/*-*/ mt.get_highest_seqno() /*+*/}/*-*/)
            .max()
            .flatten();

        active.max(sealed)
    }
//@ END

//@ FROM src/abstract_tree.rs :: trait AbstractTree :: fn get_highest_seqno :: OBL C18.3
    fn get_highest_seqno(&self) -> /*+*/(r: /*-*/Option<SeqNo>/*+*/)
        requires forall|i: int| 0 <= i < self.tables().len() ==> (#[trigger] self.tables()[i]).wf(),
        ensures
            r is None ==> self.tables().len() == 0 && self.version_history.latest.active_memtable.hi is None,
            forall|i: int| 0 <= i < self.tables().len() ==> (#[trigger] self.tables()[i]).hi() <= r->0 && r is Some,
            opt_le(self.version_history.latest.active_memtable.hi, r),/*-*/
    {
        let memtable_seqno = self.get_highest_memtable_seqno();
        let table_seqno = self.get_highest_persisted_seqno();
        memtable_seqno.max(table_seqno)
    }
//@ END
}

} // verus!
fn main() {}
