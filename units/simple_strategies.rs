//@ UNIT simple_strategies
// The three non-adaptive strategies a history may invoke (C01's alphabet: major / move-down / pull-down compaction), whole `choose`
// functions (src/compaction/major.rs, movedown.rs, pulldown.rs).  Major compaction is the one that evicts tombstones on small trees:
// it must merge EVERY table of the version into the level merge_tables treats as the last one.  Obligations C01.42, C07.18
use vstd::prelude::*;
verus! {
global size_of usize == 8;

type TableId = u64;
struct Table { id: u64 }
impl Table { fn id(&self) -> (r: u64) ensures r == self.id { self.id } }
struct Run(Vec<Table>);
struct Level { runs: Vec<Run> }
struct Version { levels: Vec<Level> }
/// the ids of all tables of all runs of the level
uninterp spec fn level_ids(l: Level) -> Set<u64>;
/// the ids of all tables of all levels of the version
uninterp spec fn version_ids(v: Version) -> Set<u64>;
#[verifier::external_body] struct HashSet { p: u8 }
impl HashSet {
    uninterp spec fn view(&self) -> Set<u64>;
    /// `a.extend(b)`
    #[verifier::external_body]
    fn extend(&mut self, other: HashSet) ensures final(self).view() == old(self).view().union(other.view()) { unimplemented!() }
}
#[verifier::external_body] struct HiddenSet { p: u8 }
impl HiddenSet {
    uninterp spec fn view(&self) -> Set<u64>;
    #[verifier::external_body]
    fn is_hidden(&self, key: TableId) -> (r: bool) ensures r == self.view().contains(key) { unimplemented!() }
}
struct CompactionState { hidden_set: HiddenSet }
impl CompactionState {
//@ FROM src/compaction/state/mod.rs :: impl CompactionState :: fn hidden_set :: OBL C01.42
    fn hidden_set(&self) -> /*+*/(r:/*-*/ &HiddenSet/*+*/) ensures r == &self.hidden_set/*-*/ {
        &self.hidden_set
    }
//@ END
}
struct Config { level_count: u8 }
impl Level {
    /// Level::list_ids (src/version/mod.rs): `.iter().flat_map(|run| run.iter()).map(Table::id).collect()`
    #[verifier::external_body]
    fn list_ids(&self) -> (r: HashSet) ensures r.view() == level_ids(*self) { unimplemented!() }
}
impl Version {
    fn level(&self, n: usize) -> (r: Option<&Level>) ensures n < self.levels@.len() ==> r == Some(&self.levels@[n as int]), n >= self.levels@.len() ==> r is None
    { if n < self.levels.len() { Some(&self.levels[n]) } else { None } }
    /// `version.iter_tables().map(Table::id).collect()`: iter_tables flattens levels, runs, tables (src/version/mod.rs)
    #[verifier::external_body]
    fn all_table_ids(&self) -> (r: HashSet) ensures r.view() == version_ids(*self) { unimplemented!() }
    /// Version::level_is_busy: some table of that level is hidden (false for a level that does not exist)
    #[verifier::external_body]
    fn level_is_busy(&self, idx: usize, hidden_set: &HiddenSet) -> (r: bool)
        ensures r == (idx < self.levels@.len() && exists|id: u64| level_ids(self.levels@[idx as int]).contains(id) && #[trigger] hidden_set.view().contains(id)) { unimplemented!() }
}
/// `ids.iter().any(p)` on a set of ids (std)
#[verifier::external_body]
fn any_id<P: FnMut(u64) -> bool>(ids: &HashSet, p: P) -> (r: bool)
    requires forall|id: u64| ids.view().contains(id) ==> call_requires(p, (id,)),
    ensures r ==> exists|id: u64| ids.view().contains(id) && call_ensures(p, (id,), true), !r ==> forall|id: u64| #[trigger] ids.view().contains(id) ==> call_ensures(p, (id,), false),
{ unimplemented!() }

//@ FROM src/compaction/mod.rs :: - :: struct Input
//@ SUBST `HashSet < TableId >` ==> `HashSet`
struct Input {
    table_ids: HashSet,

    dest_level: u8,

    canonical_level: u8,

    target_size: u64,
}
//@ END
type CompactionInput = Input;
enum Choice { DoNothing, Move(Input), Merge(Input), Drop(HashSet) }

mod major {
use super::*;
//@ FROM src/compaction/major.rs :: - :: struct Strategy
pub struct Strategy {
    pub target_size: u64,
}
//@ END

impl Strategy {
//@ FROM src/compaction/major.rs :: CompactionStrategy for Strategy :: fn choose :: OBL C01.42, C07.18
//@ SUBST `let table_ids : HashSet < _ > = version . iter_tables ( ) . map ( Table :: id ) . collect ( ) ;` ==> `let table_ids = version.all_table_ids();`
//@ SUBST `table_ids . iter ( ) . any ( | & id | $1 )` ==> `any_id(&table_ids, |id| $1)`
    pub fn choose(&self, version: &Version, cfg: &Config, state: &CompactionState) -> /*+*/(r:/*-*/ Choice/*+*/)
        requires cfg.level_count >= 1,
        ensures r is DoNothing || r is Merge,
            // a major compaction merges EVERY table of the version, into the level merge_tables treats as the last one
            // (`level_count - 1`, where tombstones are evicted), and only when none of them is part of a running compaction   // @OBL C01.42, C07.18
            r is Merge ==> r->Merge_0.table_ids.view() == version_ids(*version) && r->Merge_0.dest_level == cfg.level_count - 1
                && forall|id: u64| version_ids(*version).contains(id) ==> !state.hidden_set.view().contains(id)/*-*/
    {
        let table_ids = version.all_table_ids();

        let some_hidden = any_id(&table_ids, |id/*+*/: u64/*-*/| /*+*/-> (b: bool) ensures b == state.hidden_set.view().contains(id) {/*-*/ state.hidden_set().is_hidden(id) /*+*/}/*-*/);

        if some_hidden {
            Choice::DoNothing
        } else {
            let last_level_idx = cfg.level_count - 1;

            Choice::Merge(CompactionInput {
                table_ids,
                dest_level: last_level_idx,
                canonical_level: last_level_idx,
                target_size: self.target_size,
            })
        }
    }
//@ END
}
}

mod movedown {
use super::*;
//@ FROM src/compaction/movedown.rs :: - :: struct Strategy
pub struct Strategy(pub u8, pub u8);
//@ END

impl Strategy {
//@ FROM src/compaction/movedown.rs :: CompactionStrategy for Strategy :: fn choose :: OBL C01.42
//@ SUBST `level . iter ( ) . flat_map ( | run | run . iter ( ) ) . map ( Table :: id ) . collect ( )` ==> `level.list_ids()`
//@ SUBST `usize :: from ( self . 0 )` ==> `self.0 as usize`
//@ SUBST `self . 0 . into ( )` ==> `self.0 as usize`
//@ SUBST `_ : & Config` ==> `_cfg: &Config`
//@ SUBST `_ : & CompactionState` ==> `_state: &CompactionState`
    pub fn choose(&self, version: &Version, _cfg: &Config, state: &CompactionState) -> /*+*/(r:/*-*/ Choice/*+*/)
        ensures r is DoNothing || r is Move,
            // exactly the tables of the source level move (all of them: a newer run is never moved beneath an older one of the same level)
            r is Move ==> self.0 < version.levels@.len() && r->Move_0.table_ids.view() == level_ids(version.levels@[self.0 as int]) && r->Move_0.dest_level == self.1/*-*/
    {
        if version.level_is_busy(self.0 as usize, state.hidden_set()) {
            return Choice::DoNothing;
        }

        let Some(level) = version.level(self.0 as usize) else {
            return Choice::DoNothing;
        };

        let table_ids = level.list_ids();

        Choice::Move(Input {
            table_ids,
            dest_level: self.1,
            canonical_level: self.1,
            target_size: u64::MAX,
        })
    }
//@ END
}
}

mod pulldown {
use super::*;
//@ FROM src/compaction/pulldown.rs :: - :: struct Strategy
pub struct Strategy(pub u8, pub u8);
//@ END

impl Strategy {
//@ FROM src/compaction/pulldown.rs :: CompactionStrategy for Strategy :: fn choose :: OBL C01.42
//@ SUBST `usize :: from ( self . 0 )` ==> `self.0 as usize`
//@ SUBST `usize :: from ( self . 1 )` ==> `self.1 as usize`
//@ SUBST `_ : & Config` ==> `_cfg: &Config`
//@ SUBST `_ : & CompactionState` ==> `_state: &CompactionState`
    pub fn choose(&self, version: &Version, _cfg: &Config, _state: &CompactionState) -> /*+*/(r:/*-*/ Choice/*+*/)
        requires self.0 < version.levels@.len(), self.1 < version.levels@.len(),   // documented panics ("source / destination level should exist")
        ensures r is Merge,
            // all tables of both levels are merged into the destination level
            r->Merge_0.table_ids.view() == level_ids(version.levels@[self.0 as int]).union(level_ids(version.levels@[self.1 as int])) && r->Merge_0.dest_level == self.1/*-*/
    {
        let level = version
            .level(self.0 as usize)
            .expect("source level should exist");

        let next_level = version
            .level(self.1 as usize)
            .expect("destination level should exist");

        let mut table_ids = level.list_ids();
        table_ids.extend(next_level.list_ids());

        Choice::Merge(Input {
            table_ids,
            dest_level: self.1,
            target_size: 64_000_000,
            canonical_level: 6, // We don't really care - this compaction is only used for very specific unit tests
        })
    }
//@ END
}
}

} // verus!
fn main() {}
