//@ UNIT spill_block
// Table writer (src/table/writer/mod.rs) `Writer::spill_block`: the buffered entries are encoded as ONE data block and framed into
// the table file at the current file position; the block index receives exactly one handle for it - (last key, last seqno) of the
// block, offset = where the frame starts, size = header + payload bytes - and the file position advances by exactly that size; the
// entry and block counters follow and the buffer is emptied.  An empty buffer writes nothing.  Obligations C12.19, C01.27, C07.11
use vstd::prelude::*;
verus! {
global size_of usize == 8;
type SeqNo = u64;
type BlockOffset = u64;

// ---------------- prelude (TRUSTED) ----------------
#[verifier::external_body] struct Error { p: u8 }
#[verifier::external_body] pub struct Slice { p: u8 }
impl View for Slice { type V = Seq<u8>; uninterp spec fn view(&self) -> Seq<u8>; }
impl Slice { #[verifier::external_body] fn clone(&self) -> (r: Self) ensures r@ == self@ { unimplemented!() } }
type UserKey = Slice; type UserValue = Slice;
#[derive(Copy, Clone, PartialEq, Eq, Structural)]
enum ValueType { Value, Tombstone, WeakTombstone, Indirection = 4 }
struct InternalKey { user_key: UserKey, seqno: SeqNo, value_type: ValueType }
struct InternalValue { key: InternalKey, value: UserValue }
#[derive(Copy, Clone, PartialEq, Eq, Structural)]
enum BlockType { Data, Index, Filter, Meta }
#[derive(Copy, Clone)] struct CompressionType { p: u8 }

/// the payload DataBlock::encode_into produces for these entries (its layout: unit entry_codec, C12.17)
uninterp spec fn encoded(items: Seq<InternalValue>, ri: u8) -> Seq<u8>;
struct DataBlock { p: u8 }
impl DataBlock {
    #[verifier::external_body]
    fn encode_into(writer: &mut Vec<u8>, items: &[InternalValue], restart_interval: u8, hash_index_ratio: f32) -> (r: Result<(), Error>)
        requires items@.len() > 0
        ensures r is Ok ==> final(writer)@ == old(writer)@ + encoded(items@, restart_interval)
    { unimplemented!() }
}
/// block header as Block::write_into returns it
struct Header { block_type: BlockType, data_length: u32, uncompressed_length: u32 }
impl Header {
    /// Header::serialized_len(): magic + type + checksum + two lengths
    #[verifier::external_body] fn serialized_len() -> (r: usize) ensures r == 33 { unimplemented!() }
}
/// the bytes Block::write_into appends for a payload: header ++ (compressed) payload (unit block_io, C12.9)
uninterp spec fn frame(data: Seq<u8>, t: BlockType, c: CompressionType) -> Seq<u8>;
/// sfa::Writer<ChecksummedWriter<BufWriter<File>>>: the bytes written to the table file so far
struct FileWriter { ghost written: Seq<u8> }
struct Block { p: u8 }
impl Block {
    #[verifier::external_body]
    fn write_into(writer: &mut FileWriter, data: &[u8], block_type: BlockType, compression: CompressionType) -> (r: Result<Header, Error>)
        ensures r is Ok ==> final(writer).written == old(writer).written + frame(data@, block_type, compression)
            && frame(data@, block_type, compression).len() == 33 + r->Ok_0.data_length && r->Ok_0.uncompressed_length == data@.len() && r->Ok_0.block_type == block_type
            // 'blocks are limited to u32' / 'block header is a couple of bytes only, so cast is fine': a frame stays below 4 GiB
            && frame(data@, block_type, compression).len() <= u32::MAX
    { unimplemented!() }
}
struct BlockHandle { offset: BlockOffset, size: u32 }
impl BlockHandle { fn new(offset: BlockOffset, size: u32) -> (r: Self) ensures r.offset == offset, r.size == size { BlockHandle { offset, size } } }
struct KeyedBlockHandle { end_key: UserKey, seqno: SeqNo, inner: BlockHandle }
impl KeyedBlockHandle { fn new(end_key: UserKey, seqno: SeqNo, handle: BlockHandle) -> (r: Self) ensures r.end_key@ == end_key@, r.seqno == seqno, r.inner == handle { KeyedBlockHandle { end_key, seqno, inner: handle } } }
/// Box<dyn BlockIndexWriter>: the handles registered so far
struct IndexWriter { ghost handles: Seq<(Seq<u8>, SeqNo, BlockOffset, u32)> }
impl IndexWriter {
    #[verifier::external_body]
    fn register_data_block(&mut self, h: KeyedBlockHandle) -> (r: Result<(), Error>)
        ensures r is Ok ==> final(self).handles == old(self).handles.push((h.end_key@, h.seqno, h.inner.offset, h.inner.size)), r is Err ==> final(self).handles == old(self).handles
    { unimplemented!() }
}
/// the fields of table::writer::meta::Metadata this function touches (R8)
struct Metadata { data_block_count: usize, item_count: usize, file_pos: BlockOffset, uncompressed_size: u64, last_key: Option<UserKey> }
/// the fields of Writer this function touches (R8)
struct Writer {
    data_block_restart_interval: u8,
    data_block_hash_ratio: f32,
    data_block_compression: CompressionType,
    block_buffer: Vec<u8>,
    file_writer: FileWriter,
    index_writer: IndexWriter,
    chunk: Vec<InternalValue>,
    chunk_size: usize,
    meta: Metadata,
    prev_pos: (BlockOffset, BlockOffset),
}

//@ SUBST `crate :: Result < ( ) >` ==> `Result<(), Error>`
//@ SUBST `super :: block :: BlockType :: Data` ==> `BlockType::Data`
//@ SUBST `BlockHeader :: serialized_len ( )` ==> `Header::serialized_len()`
impl Writer {
    /// the file position is where the next byte goes
    spec fn wf(&self) -> bool { self.meta.file_pos == self.file_writer.written.len() }
//@ FROM src/table/writer/mod.rs :: impl Writer :: fn spill_block :: OBL C12.19, C01.27, C07.11
    fn spill_block(&mut self) -> /*+*/(r:/*-*/ Result<(), Error>/*+*/)
        requires old(self).wf(), old(self).meta.file_pos + 33 + u32::MAX <= u64::MAX / 2, old(self).meta.item_count + old(self).chunk@.len() <= usize::MAX, old(self).meta.data_block_count < usize::MAX,
            old(self).meta.uncompressed_size <= u64::MAX / 2, old(self).prev_pos.1 <= u64::MAX / 2,
        ensures
            // nothing buffered: nothing happens
            old(self).chunk@.len() == 0 ==> r is Ok && final(self).file_writer == old(self).file_writer && final(self).index_writer == old(self).index_writer && final(self).meta == old(self).meta,
            old(self).chunk@.len() > 0 && r is Ok ==> ({
                let items = old(self).chunk@; let last = items.last();
                let f = frame(encoded(items, old(self).data_block_restart_interval), BlockType::Data, old(self).data_block_compression);
                // the buffered entries become one framed data block at the current file position
                &&& final(self).file_writer.written == old(self).file_writer.written + f
                // the index gets exactly one handle: the block's last key and seqno, where it starts, how long it is
                &&& final(self).index_writer.handles == old(self).index_writer.handles.push((last.key.user_key@, last.key.seqno, old(self).meta.file_pos, f.len() as u32))
                &&& f.len() <= u32::MAX
                // position and counters follow; the buffer is emptied
                &&& final(self).meta.file_pos == old(self).meta.file_pos + f.len() && final(self).wf()
                &&& final(self).meta.item_count == old(self).meta.item_count + items.len()
                &&& final(self).meta.data_block_count == old(self).meta.data_block_count + 1
                &&& final(self).meta.last_key is Some && final(self).meta.last_key->Some_0@ == last.key.user_key@
                &&& final(self).chunk@.len() == 0 && final(self).chunk_size == 0
            }),/*-*/
    {
        let Some(last) = self.chunk.last() else {
            return Ok(());
        };

        self.block_buffer.clear();

        DataBlock::encode_into(
            &mut self.block_buffer,
            &self.chunk,
            self.data_block_restart_interval,
            self.data_block_hash_ratio,
        )?;

        let header = Block::write_into(
            &mut self.file_writer,
            &self.block_buffer,
            BlockType::Data,
            self.data_block_compression,
        )?;

        self.meta.uncompressed_size += u64::from(header.uncompressed_length);

        let bytes_written = Header::serialized_len() as u32 + header.data_length;

        self.index_writer
            .register_data_block(KeyedBlockHandle::new(
                last.key.user_key.clone(),
                last.key.seqno,
                BlockHandle::new(self.meta.file_pos, bytes_written),
            ))?;

        // Adjust metadata
        self.meta.file_pos += u64::from(bytes_written);
        self.meta.item_count += self.chunk.len();
        self.meta.data_block_count += 1;

        // Back link stuff
        self.prev_pos.0 = self.prev_pos.1;
        self.prev_pos.1 += u64::from(bytes_written);

        // Set last key
        self.meta.last_key = Some(
            // NOTE: We are allowed to remove the last item
            // to get ownership of it, because the chunk is cleared after
            // this anyway
            self.chunk
                .pop()
                .expect("chunk should not be empty")
                .key
                .user_key,
        );

        // IMPORTANT: Clear chunk after everything else
        self.chunk.clear();
        self.chunk_size = 0;

        Ok(())
    }
//@ END
}
}
fn main() {}
