//@ UNIT stream_filter
// CompactionStream::next step contract for an arbitrary deterministic filter.  Obligations: C17.1, C09.1
use vstd::prelude::*;
use vstd::std_specs::cmp::*;

//@ FROM src/lib.rs :: - :: macro_rules fail_iter
//@ SUBST `e . into ( )` ==> `e`
macro_rules! fail_iter {
    ($e:expr) => {
        match $e {
            Ok(v) => v,
            Err(e) => return Some(Err(e)),
        }
    };
}
//@ END

verus! {

//@ INCLUDE prelude/key.rs
//@ INCLUDE prelude/entry.rs

pub assume_specification<T, E> [std::result::Result::<T, E>::expect_err] (r: std::result::Result<T, E>, msg: &str) -> (e: E)
    where T: std::fmt::Debug,
    requires r is Err,
    ensures e == r->Err_0;

type Item = Result<InternalValue, Error>;

enum StreamFilterVerdict { Keep, Replace((ValueType, UserValue)), Drop }

/// stands for std::iter::Peekable<I>
#[verifier::external_body]
struct Peek { v: Vec<Item> }
impl Peek {
    uninterp spec fn rest(&self) -> Seq<Item>;

    #[verifier::external_body]
    fn next(&mut self) -> (r: Option<Item>)
        ensures
            old(self).rest().len() == 0 ==> r is None && final(self).rest() == old(self).rest(),
            old(self).rest().len() > 0 ==> r == Some(old(self).rest()[0]) && final(self).rest() == old(self).rest().skip(1),
    { unimplemented!() }

    #[verifier::external_body]
    fn peek(&mut self) -> (r: Option<&Item>)
        ensures
            final(self).rest() == old(self).rest(),
            old(self).rest().len() == 0 ==> r is None,
            old(self).rest().len() > 0 ==> r is Some && *r->0 == old(self).rest()[0],
    { unimplemented!() }
}

struct DropLog { ghost log: Seq<InternalValue> }
impl DropLog {
    #[verifier::external_body]
    fn on_dropped(&mut self, kv: &InternalValue)
        ensures final(self).log == old(self).log.push(*kv)
    { }
}


trait StreamFilter {
    /// the verdict is a deterministic function of the item (the quantifier of C17); the filter may keep other state
    spec fn verdict(item: InternalValue) -> Result<StreamFilterVerdict, Error>;

    fn filter_item(&mut self, item: &InternalValue) -> (r: Result<StreamFilterVerdict, Error>)
        ensures r == Self::verdict(*item);
}

/// the entry as the eviction rules see it after the filter
spec fn applied<F: StreamFilter>(v: InternalValue) -> InternalValue {
    if dead(v) { v } else {
        match F::verdict(v) {
            Ok(StreamFilterVerdict::Replace((t, val))) => InternalValue { key: InternalKey { user_key: v.key.user_key, seqno: v.key.seqno, value_type: t }, value: val },
            _ => v,
        }
    }
}
spec fn fdrop<F: StreamFilter>(v: InternalValue) -> bool { !dead(v) && F::verdict(v) matches Ok(StreamFilterVerdict::Drop) }
spec fn freplaced<F: StreamFilter>(v: InternalValue) -> bool { !dead(v) && F::verdict(v) matches Ok(StreamFilterVerdict::Replace(_)) }
spec fn ferr<F: StreamFilter>(v: InternalValue) -> bool { !dead(v) && F::verdict(v) is Err }

spec fn all_ok(s: Seq<Item>) -> bool { forall|i: int| 0 <= i < s.len() ==> (#[trigger] s[i]) is Ok }
spec fn vals(s: Seq<Item>) -> Seq<InternalValue> { Seq::new(s.len(), |i: int| s[i]->Ok_0) }
spec fn krank(it: Item) -> int { it->Ok_0.key.user_key.rank() }

//@ INCLUDE prelude/drain_specs.rs


spec fn keys_sorted(s: Seq<Item>) -> bool {
    forall|a: int, b: int| 0 <= a < b < s.len() && (#[trigger] s[a]) is Ok && (#[trigger] s[b]) is Ok ==> krank(s[a]) <= krank(s[b])
}

/// R[a..b) consists only of heads that the rules allow to vanish, each with its whole same-key tail
spec fn chunks_ok<F: StreamFilter>(r: Seq<Item>, a: int, b: int, evict: bool, w: SeqNo) -> bool
    decreases b - a
{
    if a >= b { a == b } else if !(0 <= a < r.len()) || !(r[a] is Ok) { false } else {
        let h0 = r[a]->Ok_0;
        if fdrop::<F>(h0) { chunks_ok::<F>(r, a + 1, b, evict, w) } else {
            let h = applied::<F>(h0);
            let m = same_key_prefix(r.skip(a + 1), h.key.user_key.rank(), false, !evict) as int;
            !ferr::<F>(h0)
            && ( (dead(h) && evict) || (h.key.value_type == ValueType::WeakTombstone && m >= 1 && r[a + 1]->Ok_0.key.value_type == ValueType::Value) )
            // C13 (S'): versions are garbage collected beneath a dropped head only from below the GC watermark
            && (m >= 1 ==> r[a + 1]->Ok_0.key.seqno < w)
            && a + 1 + m <= b && chunks_ok::<F>(r, a + 1 + m, b, evict, w)
        }
    }
}

proof fn lemma_chunks_append<F: StreamFilter>(r: Seq<Item>, a: int, mid: int, b: int, evict: bool, w: SeqNo)
    requires chunks_ok::<F>(r, a, mid, evict, w), chunks_ok::<F>(r, mid, b, evict, w), a <= mid <= b,
    ensures chunks_ok::<F>(r, a, b, evict, w),
    decreases mid - a
{
    if a >= mid {
    } else {
        let h0 = r[a]->Ok_0;
        if fdrop::<F>(h0) {
            lemma_chunks_append::<F>(r, a + 1, mid, b, evict, w);
        } else {
            let h = applied::<F>(h0);
            let m = same_key_prefix(r.skip(a + 1), h.key.user_key.rank(), false, !evict) as int;
            lemma_chunks_append::<F>(r, a + 1 + m, mid, b, evict, w);
        }
    }
}

/// the drop log restricted to entries that are not tombstones
spec fn live(s: Seq<InternalValue>) -> Seq<InternalValue>
    decreases s.len()
{
    if s.len() == 0 { Seq::empty() } else {
        let p = live(s.drop_last());
        if dead(s.last()) { p } else { p.push(s.last()) }
    }
}

proof fn lemma_live_push(a: Seq<InternalValue>, v: InternalValue)
    ensures live(a.push(v)) == if dead(v) { live(a) } else { live(a).push(v) }
{
    assert(a.push(v).drop_last() =~= a);
}

proof fn lemma_live_add(a: Seq<InternalValue>, b: Seq<InternalValue>)
    ensures live(a + b) == live(a) + live(b)
    decreases b.len()
{
    if b.len() == 0 {
        assert(a + b =~= a);
        assert(live(a) + live(b) =~= live(a));
    } else {
        lemma_live_add(a, b.drop_last());
        assert((a + b).drop_last() =~= a + b.drop_last());
        assert((a + b).last() == b.last());
        if dead(b.last()) {
        } else {
            assert((live(a) + live(b.drop_last())).push(b.last()) =~= live(a) + live(b.drop_last()).push(b.last()));
        }
    }
}

proof fn lemma_vals_split(r: Seq<Item>, a: int, m: int)
    requires 0 <= a, 0 <= m, a + m <= r.len()
    ensures vals(r.take(a + m)) == vals(r.take(a)) + vals(r.skip(a).take(m))
{
    assert(vals(r.take(a + m)) =~= vals(r.take(a)) + vals(r.skip(a).take(m)));
}

/// structural part of the step contract for an arbitrary deterministic filter (DESIGN 5/C17.1)
spec fn step_struct<F: StreamFilter>(r0: Seq<Item>, r1: Seq<Item>, evict: bool, zero: bool, w: SeqNo, r: Option<Item>) -> bool {
    let n = r0.len() - r1.len();
    0 <= n <= r0.len() && r1 == r0.skip(n)
    && match r {
        None => n == r0.len() && all_ok(r0) && chunks_ok::<F>(r0, 0, n, evict, w),
        Some(Err(e)) => n >= 1 && (r0[n - 1] == Err::<InternalValue, Error>(e)
                || (r0[n - 1] is Ok && !dead(r0[n - 1]->Ok_0) && F::verdict(r0[n - 1]->Ok_0) == Err::<StreamFilterVerdict, Error>(e))),
        Some(Ok(x)) => all_ok(r0.take(n)) && exists|i: int| 0 <= i < n
                && #[trigger] r0[i]->Ok_0.key.user_key.rank() == x.key.user_key.rank()
                && applied::<F>(r0[i]->Ok_0).key.value_type == x.key.value_type
                && applied::<F>(r0[i]->Ok_0).value == x.value
                && (!zero ==> r0[i]->Ok_0.key.seqno == x.key.seqno)
                && (forall|j: int| i < j < n ==> krank(#[trigger] r0[j]) == x.key.user_key.rank())
                // C13 (N2): versions dropped beneath an emitted live entry never include a weak tombstone unless this is the last level
                && (!evict && !dead(applied::<F>(r0[i]->Ok_0)) ==> forall|j: int| i < j < n ==> (#[trigger] r0[j])->Ok_0.key.value_type != ValueType::WeakTombstone)
                // C13 (S'): versions are garbage collected beneath the emitted entry only from below the GC watermark
                && (n > i + 1 ==> r0[i + 1]->Ok_0.key.seqno < w)
                && chunks_ok::<F>(r0, 0, i, evict, w),
    }
}

/// conservation on the live projection of the drop log, with filter-replaced originals reported (C09.1)
spec fn step_log<F: StreamFilter>(r0: Seq<Item>, r1: Seq<Item>, l0: Seq<InternalValue>, l1: Seq<InternalValue>, zero: bool, r: Option<Item>) -> bool {
    let n = r0.len() - r1.len();
    match r {
        None => live(l1) == live(l0) + live(vals(r0)),
        Some(Err(e)) => true,
        Some(Ok(x)) => exists|i: int| 0 <= i < n <= r0.len()
                && #[trigger] r0[i]->Ok_0.key.user_key.rank() == x.key.user_key.rank()
                && (!zero ==> r0[i]->Ok_0.key.seqno == x.key.seqno)
                && live(l1) == live(l0) + live(vals(if freplaced::<F>(r0[i]->Ok_0) { r0.take(n) } else { r0.take(n).remove(i) })),
    }
}

struct CompactionStream<F: StreamFilter> {
    filter: F,
    inner: Peek,
    gc_seqno_threshold: SeqNo,
    dropped_callback: Option<DropLog>,
    evict_tombstones: bool,
    zero_seqnos: bool,
}

impl<F: StreamFilter> CompactionStream<F> {
    spec fn log(&self) -> Seq<InternalValue> { match self.dropped_callback { Some(l) => l.log, None => Seq::empty() } }
    spec fn has_cb(&self) -> bool { self.dropped_callback is Some }
    spec fn same_cfg(&self, o: &Self) -> bool {
        self.gc_seqno_threshold == o.gc_seqno_threshold && self.evict_tombstones == o.evict_tombstones
        && self.zero_seqnos == o.zero_seqnos && self.has_cb() == o.has_cb()
    }

    // contract proved from the real body in unit `drain_key` (C13.4, C01.35); assumed here
    #[verifier::external_body]
    fn drain_key(&mut self, key: &UserKey, keep_weak_tombstones: bool, keep_tombstones: bool) -> (r: Result<(), Error>)
//@ INCLUDE prelude/drain_key_ensures.rs
    { unimplemented!() }

//@ FROM src/compaction/stream.rs :: Iterator for CompactionStream :: fn next :: OBL C17.1, C09.1
//@ SUBST `Self :: Item` ==> `Item`
 /*+*/#[verifier::rlimit(1500)]/*-*/ fn next (&mut self) ->  /*+*/(r:/*-*/ Option < Item >  /*+*/)
        requires keys_sorted(old(self).inner.rest()), old(self).has_cb(),
        ensures
            final(self).same_cfg(old(self)),
            step_struct::<F>(old(self).inner.rest(), final(self).inner.rest(), old(self).evict_tombstones, old(self).zero_seqnos, old(self).gc_seqno_threshold, r),   // @OBL C17.1
            step_log::<F>(old(self).inner.rest(), final(self).inner.rest(), old(self).log(), final(self).log(), old(self).zero_seqnos, r),   // @OBL C09.1
        /*-*/ {
 /*+*/let ghost r0 = self.inner.rest();
        let ghost l0 = self.log();
        let ghost mut k: int = 0;
        proof { assert(r0.skip(0) =~= r0); assert(vals(r0.take(0)) =~= Seq::<InternalValue>::empty()); assert(live(l0) + live(Seq::<InternalValue>::empty()) =~= live(l0)); }/*-*/ loop  /*+*/invariant
                self.same_cfg(old(self)),
                0 <= k <= r0.len(), self.inner.rest() == r0.skip(k), all_ok(r0.take(k)),
                r0 == old(self).inner.rest(), keys_sorted(r0), chunks_ok::<F>(r0, 0, k, self.evict_tombstones, self.gc_seqno_threshold),   // @OBL C17.1
                self.has_cb(), l0 == old(self).log(),
                live(self.log()) == live(l0) + live(vals(r0.take(k))),   // @OBL C09.1
            decreases self.inner.rest().len()/*-*/ {
 /*+*/proof {
                if k == r0.len() { assert(r0.take(k) =~= r0); }
                else { assert(r0.skip(k).skip(1) =~= r0.skip(k + 1)); assert(r0.skip(k)[0] == r0[k]); }
            }/*-*/ let mut head = fail_iter !(self.inner.next ()?);
 /*+*/proof {
                // head == r0[k], rest == r0.skip(k+1)
                assert(r0.skip(k).skip(1) =~= r0.skip(k + 1));
                assert(r0.skip(k)[0] == r0[k]);
                assert forall|i: int| 0 <= i < k + 1 implies (#[trigger] r0.take(k + 1)[i]) is Ok by {
                    if i < k { assert(r0.take(k)[i] is Ok); }
                }
            }
            let ghost h = k;    // index of head
            let ghost lg = self.log();   // @OBL C09.1
            let ghost mut dr: int = 0;   // number of entries drained beneath an emitted head
            proof {
                assert(vals(r0.take(h + 1)) =~= vals(r0.take(h)).push(r0[h]->Ok_0));
                lemma_live_push(vals(r0.take(h)), r0[h]->Ok_0);   // @OBL C09.1
            }
            proof { assert(chunks_ok::<F>(r0, 0, h, self.evict_tombstones, self.gc_seqno_threshold)); assert(head == r0[h]->Ok_0); k = k + 1; }/*-*/ if !head.is_tombstone () {
match fail_iter !(self.filter.filter_item (&head)) {
StreamFilterVerdict::Keep => {
}
StreamFilterVerdict::Replace ((new_type, new_value)) => {
if let Some (watcher) = &mut self.dropped_callback {
watcher.on_dropped (&head);
}
head.value = new_value;
head.key.value_type = new_type;
}
StreamFilterVerdict::Drop => {
if let Some (watcher) = &mut self.dropped_callback {
watcher.on_dropped (&head);
}
 /*+*/proof {
                            assert(fdrop::<F>(r0[h]->Ok_0));
                            assert(chunks_ok::<F>(r0, h + 1, h + 1, self.evict_tombstones, self.gc_seqno_threshold));   // @OBL C17.1
                            assert(chunks_ok::<F>(r0, h, h + 1, self.evict_tombstones, self.gc_seqno_threshold));   // @OBL C17.1
                            lemma_chunks_append::<F>(r0, 0, h, h + 1, self.evict_tombstones, self.gc_seqno_threshold);   // @OBL C17.1
                            assert(self.log() == lg.push(head));   // @OBL C09.1
                            lemma_live_push(lg, head);   // @OBL C09.1
                            assert((live(l0) + live(vals(r0.take(h)))).push(head) =~= live(l0) + live(vals(r0.take(h))).push(head));   // @OBL C09.1
                        }/*-*/ continue;
}
}
}
 /*+*/let ghost lg2 = self.log();   // @OBL C09.1
            let ghost h0 = r0[h]->Ok_0;
            proof {
                assert(head.key.user_key == h0.key.user_key &&head.key.seqno == h0.key.seqno);
                assert(head.key.value_type == applied::<F>(h0).key.value_type &&head.value == applied::<F>(h0).value);
                assert(!fdrop::<F>(h0) &&!ferr::<F>(h0));
                if freplaced::<F>(h0) {
                    assert(lg2 == lg.push(h0));   // @OBL C09.1
                    lemma_live_push(lg, h0);   // @OBL C09.1
                    assert((live(l0) + live(vals(r0.take(h)))).push(h0) =~= live(l0) + live(vals(r0.take(h))).push(h0));   // @OBL C09.1
                    assert(live(lg2) == live(l0) + live(vals(r0.take(h + 1))));   // @OBL C09.1
                } else {
                    assert(lg2 == lg);   // @OBL C09.1
                    if dead(h0) { assert(live(lg2) == live(l0) + live(vals(r0.take(h + 1)))); }   // @OBL C09.1
                }
            }/*-*/ if let Some (peeked) = self.inner.peek () {
let Ok (peeked) = peeked else {
 /*+*/proof { assert(r0.skip(k).skip(1) =~= r0.skip(k + 1)); assert(r0.skip(k)[0] == r0[k]); }/*-*/ return Some (Err (self.inner.next ().expect ("value should exist").expect_err ("should be error")));
}
;
if peeked.key.user_key > head.key.user_key {
if head.is_tombstone () &&self.evict_tombstones {
 /*+*/proof {
                            assert(r0.skip(h + 1)[0] == r0[h + 1]);
                            assert(same_key_prefix(r0.skip(h + 1), r0[h]->Ok_0.key.user_key.rank(), false, !self.evict_tombstones) == 0);
                            assert(chunks_ok::<F>(r0, h + 1, h + 1, self.evict_tombstones, self.gc_seqno_threshold));   // @OBL C17.1
                            assert(chunks_ok::<F>(r0, h, h + 1, self.evict_tombstones, self.gc_seqno_threshold));   // @OBL C17.1
                            lemma_chunks_append::<F>(r0, 0, h, h + 1, self.evict_tombstones, self.gc_seqno_threshold);   // @OBL C17.1
                        }/*-*/ continue;
}
}
else if peeked.key.seqno < self.gc_seqno_threshold {
if head.key.value_type == ValueType::Tombstone &&self.evict_tombstones {
 /*+*/let ghost s = self.inner.rest();
                        proof {
                            let m0 = same_key_prefix(s, head.key.user_key.rank(), false, false) as int;
                            lemma_prefix(s, head.key.user_key.rank(), false, false);
                            if m0 < s.len() { assert(r0.skip(k).skip(m0 + 1) =~= r0.skip(k + m0 + 1)); assert(r0.skip(k)[m0] == r0[k + m0]); }
                        }/*-*/ fail_iter !(self.drain_key (&head.key.user_key, false, false));
 /*+*/proof {
                            let m = same_key_prefix(s, head.key.user_key.rank(), false, false) as int;
                            lemma_prefix(s, head.key.user_key.rank(), false, false);
                            assert(r0.skip(k).skip(m) =~= r0.skip(k + m));
                            lemma_take_ok(r0, k, m, head.key.user_key.rank());
                            assert(chunks_ok::<F>(r0, h + 1 + m, h + 1 + m, self.evict_tombstones, self.gc_seqno_threshold));   // @OBL C17.1
                            assert(chunks_ok::<F>(r0, h, h + 1 + m, self.evict_tombstones, self.gc_seqno_threshold));   // @OBL C17.1
                            lemma_chunks_append::<F>(r0, 0, h, h + 1 + m, self.evict_tombstones, self.gc_seqno_threshold);   // @OBL C17.1
                            lemma_vals_split(r0, h + 1, m);   // @OBL C09.1
                            lemma_live_add(lg2, vals(s.take(m)));   // @OBL C09.1
                            lemma_live_add(vals(r0.take(h + 1)), vals(s.take(m)));   // @OBL C09.1
                            assert((live(l0) + live(vals(r0.take(h + 1)))) + live(vals(s.take(m))) =~= live(l0) + (live(vals(r0.take(h + 1))) + live(vals(s.take(m)))));   // @OBL C09.1
                            k = k + m;
                        }/*-*/ continue;
}
let drop_weak_tombstone = peeked.key.value_type == ValueType::Value &&head.key.value_type == ValueType::WeakTombstone;
let keep_tombstones = drop_weak_tombstone &&!self.evict_tombstones;
let keep_weak_tombstones = !head.is_tombstone () &&!self.evict_tombstones;
 /*+*/let ghost s = self.inner.rest();
                    proof {
                        let m0 = same_key_prefix(s, head.key.user_key.rank(), keep_weak_tombstones, keep_tombstones) as int;
                        lemma_prefix(s, head.key.user_key.rank(), keep_weak_tombstones, keep_tombstones);
                        if m0 < s.len() { assert(r0.skip(k).skip(m0 + 1) =~= r0.skip(k + m0 + 1)); assert(r0.skip(k)[m0] == r0[k + m0]); }
                    }/*-*/ fail_iter !(self.drain_key (&head.key.user_key, keep_weak_tombstones, keep_tombstones));
 /*+*/proof {
                        let m = same_key_prefix(s, head.key.user_key.rank(), keep_weak_tombstones, keep_tombstones) as int;
                        lemma_prefix(s, head.key.user_key.rank(), keep_weak_tombstones, keep_tombstones);
                        assert(r0.skip(k).skip(m) =~= r0.skip(k + m));
                        lemma_take_ok(r0, k, m, head.key.user_key.rank());
                        lemma_vals_split(r0, h + 1, m);   // @OBL C09.1
                        lemma_live_add(lg2, vals(s.take(m)));   // @OBL C09.1
                        lemma_live_add(vals(r0.take(h + 1)), vals(s.take(m)));   // @OBL C09.1
                        assert((live(l0) + live(vals(r0.take(h + 1)))) + live(vals(s.take(m))) =~= live(l0) + (live(vals(r0.take(h + 1))) + live(vals(s.take(m)))));   // @OBL C09.1
                        lemma_live_add(vals(r0.take(h)), vals(s.take(m)));   // @OBL C09.1
                        assert((live(l0) + live(vals(r0.take(h)))) + live(vals(s.take(m))) =~= live(l0) + (live(vals(r0.take(h))) + live(vals(s.take(m)))));   // @OBL C09.1
                        dr = m;
                        assert forall|j: int| h < j < h + 1 + m implies !kept((#[trigger] r0[j])->Ok_0, keep_weak_tombstones, keep_tombstones) by {   // @OBL C17.1
                            assert(s[j - (h + 1)] == r0[j]);
                        }
                        k = k + m;
                    }/*-*/ if drop_weak_tombstone {
 /*+*/proof {
                            let m = same_key_prefix(s, head.key.user_key.rank(), keep_weak_tombstones, keep_tombstones) as int;
                            assert(s[0] == r0[h + 1]);
                            assert(krank(r0[h]) <= krank(r0[h + 1]));
                            assert(m >= 1);
                            assert(chunks_ok::<F>(r0, h + 1 + m, h + 1 + m, self.evict_tombstones, self.gc_seqno_threshold));   // @OBL C17.1
                            assert(chunks_ok::<F>(r0, h, h + 1 + m, self.evict_tombstones, self.gc_seqno_threshold));   // @OBL C17.1
                            lemma_chunks_append::<F>(r0, 0, h, h + 1 + m, self.evict_tombstones, self.gc_seqno_threshold);   // @OBL C17.1
                        }/*-*/ continue;
}
}
}
else if head.is_tombstone () &&self.evict_tombstones {
 /*+*/proof {
                    assert(r0.skip(h + 1).len() == 0);
                    assert(same_key_prefix(r0.skip(h + 1), r0[h]->Ok_0.key.user_key.rank(), false, !self.evict_tombstones) == 0);
                    assert(chunks_ok::<F>(r0, h + 1, h + 1, self.evict_tombstones, self.gc_seqno_threshold));   // @OBL C17.1
                    assert(chunks_ok::<F>(r0, h, h + 1, self.evict_tombstones, self.gc_seqno_threshold));   // @OBL C17.1
                    lemma_chunks_append::<F>(r0, 0, h, h + 1, self.evict_tombstones, self.gc_seqno_threshold);   // @OBL C17.1
                }/*-*/ continue;
}
if self.zero_seqnos &&head.key.seqno < self.gc_seqno_threshold {
head.key.seqno = 0;
}
 /*+*/proof {
                assert(r0[h] is Ok) by { assert(r0.take(h + 1)[h] is Ok); }
                assert(k == h + 1 + dr);
                assert(r0.take(k).remove(h) =~= r0.take(h) + r0.skip(h + 1).take(dr));
                assert(vals(r0.take(k).remove(h)) =~= vals(r0.take(h)) + vals(r0.skip(h + 1).take(dr)));
                lemma_live_add(vals(r0.take(h)), vals(r0.skip(h + 1).take(dr)));   // @OBL C09.1
                lemma_vals_split(r0, h + 1, dr);   // @OBL C09.1
                lemma_live_add(vals(r0.take(h + 1)), vals(r0.skip(h + 1).take(dr)));   // @OBL C09.1
                if dr == 0 {
                    assert(vals(r0.skip(h + 1).take(0)) =~= Seq::<InternalValue>::empty());
                    assert(live(vals(r0.take(h))) + live(Seq::<InternalValue>::empty()) =~= live(vals(r0.take(h))));   // @OBL C09.1
                    assert(live(vals(r0.take(h + 1))) + live(Seq::<InternalValue>::empty()) =~= live(vals(r0.take(h + 1))));   // @OBL C09.1
                    assert(r0.take(k) =~= r0.take(h + 1));
                }
            }/*-*/ return Some (Ok (head));
}
}

//@ END

}

/// the first `same_key_prefix` entries are Ok with that key, and the prefix is within bounds
proof fn lemma_prefix(s: Seq<Item>, kk: int, kw: bool, kt: bool)
    ensures
        same_key_prefix(s, kk, kw, kt) <= s.len(),
        forall|j: int| 0 <= j < same_key_prefix(s, kk, kw, kt) ==> (#[trigger] s[j]) is Ok && krank(s[j]) == kk && !kept(s[j]->Ok_0, kw, kt),
    decreases s.len()
{
    if s.len() == 0 {
    } else if s[0] is Ok && krank(s[0]) == kk && !kept(s[0]->Ok_0, kw, kt) {
        lemma_prefix(s.skip(1), kk, kw, kt);
        assert forall|j: int| 0 <= j < same_key_prefix(s, kk, kw, kt) implies (#[trigger] s[j]) is Ok && krank(s[j]) == kk && !kept(s[j]->Ok_0, kw, kt) by {
            if j > 0 { assert(s.skip(1)[j - 1] == s[j]); }
        }
    }
}

proof fn lemma_take_ok(r0: Seq<Item>, k: int, m: int, kk: int)
    requires 0 <= k, 0 <= m, k + m <= r0.len(), all_ok(r0.take(k)),
        forall|j: int| 0 <= j < m ==> (#[trigger] r0.skip(k)[j]) is Ok && krank(r0.skip(k)[j]) == kk,
    ensures all_ok(r0.take(k + m)),
        forall|j: int| k <= j < k + m ==> krank(#[trigger] r0[j]) == kk,
{
    assert forall|i: int| 0 <= i < k + m implies (#[trigger] r0.take(k + m)[i]) is Ok by {
        if i < k { assert(r0.take(k)[i] is Ok); } else { assert(r0.skip(k)[i - k] is Ok); }
    }
    assert forall|j: int| k <= j < k + m implies krank(#[trigger] r0[j]) == kk by {
        assert(r0.skip(k)[j - k] == r0[j]);
    }
}

} // verus!
fn main() {}
