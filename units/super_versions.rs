//@ UNIT super_versions
//@ SUBST `VecDeque` ==> `Deque`
use vstd::prelude::*;
verus! {

pub type SeqNo = u64;

/// light SuperVersion: only what super_version.rs reads
pub struct Version { pub id: u64 }
impl Version { pub fn id(&self) -> (r: u64) ensures r == self.id { self.id } }
pub struct SuperVersion { pub seqno: SeqNo, pub version: Version }
impl Clone for SuperVersion {
    #[verifier::external_body]
    fn clone(&self) -> (r: Self) ensures r == *self { SuperVersion { seqno: self.seqno, version: Version { id: self.version.id } } }
}

/// prelude: iterator over a ghost sequence of references (stands for vec_deque::Iter and Rev<..>)
#[verifier::external_body]
#[verifier::reject_recursive_types(T)]
pub struct RefIter<'a, T> { v: Vec<&'a T> }
impl<'a, T> RefIter<'a, T> {
    pub uninterp spec fn rest(&self) -> Seq<&'a T>;

    #[verifier::external_body]
    pub fn rev(self) -> (r: RefIter<'a, T>)
        ensures r.rest().len() == self.rest().len(),
            forall|i: int| 0 <= i < self.rest().len() ==> #[trigger] r.rest()[i] == self.rest()[self.rest().len() - 1 - i],
            forall|i: int| 0 <= i < self.rest().len() ==> #[trigger] self.rest()[i] == r.rest()[self.rest().len() - 1 - i],
    { unimplemented!() }

    #[verifier::external_body]
    pub fn find<P: FnMut(&&'a T) -> bool>(&mut self, pred: P) -> (r: Option<&'a T>)
        requires forall|i: int| 0 <= i < old(self).rest().len() ==> call_requires(pred, (&#[trigger] old(self).rest()[i],)),
        ensures
            match r {
                Some(x) => exists|i: int| 0 <= i < old(self).rest().len() && #[trigger] old(self).rest()[i] == x
                    && call_ensures(pred, (&old(self).rest()[i],), true)
                    && (forall|j: int| 0 <= j < i ==> call_ensures(pred, (&#[trigger] old(self).rest()[j],), false)),
                None => forall|j: int| 0 <= j < old(self).rest().len() ==> call_ensures(pred, (&#[trigger] old(self).rest()[j],), false),
            }
    { unimplemented!() }
}

/// prelude: stands for std::collections::VecDeque
#[verifier::external_body]
#[verifier::reject_recursive_types(T)]
pub struct Deque<T> { v: Vec<T> }
impl<T> Deque<T> {
    pub uninterp spec fn view(&self) -> Seq<T>;

    #[verifier::external_body]
    pub fn front(&self) -> (r: Option<&T>)
        ensures self.view().len() == 0 ==> r is None, self.view().len() > 0 ==> r is Some && *r->0 == self.view()[0]
    { unimplemented!() }

    #[verifier::external_body]
    pub fn iter(&self) -> (r: RefIter<'_, T>)
        ensures r.rest().len() == self.view().len(),
            forall|i: int| 0 <= i < self.view().len() ==> *(#[trigger] r.rest()[i]) == self.view()[i],
            forall|i: int| 0 <= i < self.view().len() ==> #[trigger] self.view()[i] == *r.rest()[i],
    { unimplemented!() }
}

impl<'a, T> RefIter<'a, T> {
    #[verifier::external_body]
    pub fn rposition<P: FnMut(&'a T) -> bool>(&mut self, pred: P) -> (r: Option<usize>)
        requires forall|i: int| 0 <= i < old(self).rest().len() ==> call_requires(pred, (#[trigger] old(self).rest()[i],)),
        ensures
            match r {
                Some(p) => p < old(self).rest().len() && call_ensures(pred, (old(self).rest()[p as int],), true)
                    && (forall|j: int| p < j < old(self).rest().len() ==> call_ensures(pred, (#[trigger] old(self).rest()[j],), false)),
                None => forall|j: int| 0 <= j < old(self).rest().len() ==> call_ensures(pred, (#[trigger] old(self).rest()[j],), false),
            }
    { unimplemented!() }
}
impl<T> Deque<T> {
    #[verifier::external_body]
    pub fn len(&self) -> (r: usize) ensures r == self.view().len()
    { unimplemented!() }

    #[verifier::external_body]
    pub fn pop_front(&mut self) -> (r: Option<T>)
        ensures
            old(self).view().len() == 0 ==> r is None && final(self).view() == old(self).view(),
            old(self).view().len() > 0 ==> r == Some(old(self).view()[0]) && final(self).view() == old(self).view().skip(1),
    { unimplemented!() }
}

/// prelude: effects outside the history (paths, file system) — results are arbitrary
#[verifier::external_body] pub struct Path { p: u8 }
#[verifier::external_body] pub struct PathBuf { p: u8 }
#[verifier::external_body] pub struct IoError { p: u8 }
#[verifier::external_body] pub struct Error { p: u8 }
impl From<IoError> for Error { #[verifier::external_body] fn from(e: IoError) -> (r: Error) { Error { p: 0 } } }
impl PathBuf { pub uninterp spec fn vid(&self) -> u64; }
impl Path { #[verifier::external_body] pub fn join(&self, name: VersionFileName) -> (r: PathBuf) ensures r.vid() == name.id { unimplemented!() } }
impl PathBuf { #[verifier::external_body] pub fn try_exists(&self) -> (r: Result<bool, IoError>) { unimplemented!() } }
pub struct VersionFileName { pub id: u64 }
/// stands for `format!("v{}", id)` (rule R12)
pub fn version_file_name(id: u64) -> (r: VersionFileName) ensures r.id == id { VersionFileName { id } }
pub mod vfs { #[verifier::external_body] pub fn remove_file(p: &super::PathBuf) -> (r: Result<(), super::IoError>) { unimplemented!() } }
#[verifier::external_body]
pub fn retry_transient_io<T, F: FnMut() -> Result<T, IoError>>(op: F) -> (r: Result<T, IoError>) { unimplemented!() }

pub open spec fn resolve(h: Seq<SuperVersion>, s: SeqNo) -> int
    decreases h.len()
{
    if h.len() == 0 { -1 } else if h.last().seqno < s { h.len() - 1 } else { resolve(h.drop_last(), s) }
}

impl<'a, T> RefIter<'a, T> {
    #[verifier::external_body]
    pub fn last(self) -> (r: Option<&'a T>)
        ensures self.rest().len() == 0 ==> r is None, self.rest().len() > 0 ==> r == Some(self.rest().last())
    { unimplemented!() }
}
impl<T> Deque<T> {
    #[verifier::external_body]
    pub fn push_back(&mut self, v: T) ensures final(self).view() == old(self).view().push(v)
    { unimplemented!() }
    #[verifier::external_body]
    pub fn pop_back(&mut self) -> (r: Option<T>)
        ensures
            old(self).view().len() == 0 ==> r is None && final(self).view() == old(self).view(),
            old(self).view().len() > 0 ==> r == Some(old(self).view().last()) && final(self).view() == old(self).view().drop_last(),
    { unimplemented!() }
}
/// contract of persist_version: may fail, nothing else is known
#[verifier::external_body]
pub fn persist_version(folder: &Path, version: &Version) -> (r: Result<(), Error>) { unimplemented!() }
/// prelude: the atomic counter; its value is outside the Verus unit (checked by the Kani harness)
#[verifier::external_body] pub struct SequenceNumberCounter { p: u8 }
/// `drawn(c, s)`: s is a number this very step drew from the counter with identity c (only `next()` establishes it), so it exceeds
/// every number the counter handed out before - in particular every snapshot seqno already open
pub uninterp spec fn drawn(counter: int, s: SeqNo) -> bool;
impl SequenceNumberCounter {
    /// which underlying atomic the handle shares
    pub uninterp spec fn id(&self) -> int;
    #[verifier::external_body] pub fn fetch_max(&self, seqno: SeqNo) { }
    /// TRUSTED (src/seqno.rs asserts it): the MSB is reserved, so a drawn seqno is < 2^63
    #[verifier::external_body] pub fn next(&self) -> (r: SeqNo) ensures r < 0x8000_0000_0000_0000, drawn(self.id(), r) { unimplemented!() }
}

//@ FROM src/version/super_version.rs :: - :: struct SuperVersions
struct SuperVersions(Deque<SuperVersion>);
//@ END

impl SuperVersions {
//@ FROM src/version/super_version.rs :: impl SuperVersions :: fn append_version :: OBL C02.5
    fn append_version(&mut self, version: SuperVersion/*+*/)
        ensures final(self).0.view() == old(self).0.view().push(version/*-*/)
    {
        self.0.push_back(version);
    }
//@ END

//@ FROM src/version/super_version.rs :: impl SuperVersions :: fn replace_latest_version :: OBL C02.5
    fn replace_latest_version(&mut self, version: SuperVersion)
        /*+*/ensures old(self).0.view().len() > 0 ==> final(self).0.view() == old(self).0.view().drop_last().push(version),
                old(self).0.view().len() == 0 ==> final(self).0.view() == old(self).0.view(),/*-*/
    {
        if self.0.pop_back().is_some() {
            self.0.push_back(version);
        }
    }
//@ END

//@ FROM src/version/super_version.rs :: impl SuperVersions :: fn latest_version :: OBL C02.5
    fn latest_version(&self) -> /*+*/(r:/*-*/ SuperVersion/*+*/)
        requires self.0.view().len() > 0,
        ensures r == self.0.view().last(),/*-*/
    {
        self.0
            .iter()
            .last()
            .cloned()
            .expect("should always have a SuperVersion")
    }
//@ END

    // ---- near-verbatim (C02.4 / C16.1): history part ----
//@ FROM src/version/super_version.rs :: impl SuperVersions :: fn upgrade_version :: OBL C02.4, C16.1, C02.14, C07.19
//@ SUBST `crate :: Result < ( ) >` ==> `Result<(), Error>`
//@ SUBST `crate :: Result < SuperVersion >` ==> `Result<SuperVersion, Error>`
    fn upgrade_version<F: FnOnce(&SuperVersion) -> Result<SuperVersion, Error>>(
        &mut self,
        tree_path: &Path,
        f: F,
        seqno: &SequenceNumberCounter,
        visible_seqno: &SequenceNumberCounter,
    ) -> /*+*/(r: /*-*/Result<(), Error>/*+*/)
        requires old(self).0.view().len() > 0,
            forall|x: &SuperVersion| call_requires(f, (x,)),
        ensures
            r is Err ==> final(self).0.view() == old(self).0.view(),
            r is Ok ==> final(self).0.view().len() == old(self).0.view().len() + 1
                && final(self).0.view().drop_last() == old(self).0.view()
                // the new entry is stamped with a number freshly drawn from the given counter (C02.14)
                && drawn(seqno.id(), final(self).0.view().last().seqno)
                && (exists|sv: SuperVersion| #[trigger] call_ensures(f, (&old(self).0.view().last(),), Ok::<SuperVersion, Error>(sv)) && final(self).0.view().last().version == sv.version),/*-*/
    {
        self.upgrade_version_with_seqno(tree_path, f, seqno.next(), visible_seqno)
    }
//@ END

//@ FROM src/version/super_version.rs :: impl SuperVersions :: fn upgrade_version_with_seqno :: OBL C02.4, C16.1, C07.19
//@ SUBST `crate :: Result < ( ) >` ==> `Result<(), Error>`
//@ SUBST `crate :: Result < SuperVersion >` ==> `Result<SuperVersion, Error>`
    fn upgrade_version_with_seqno<
        F: FnOnce(&SuperVersion) -> Result<SuperVersion, Error>,
    >(
        &mut self,
        tree_path: &Path,
        f: F,
        seqno: SeqNo,
        visible_seqno: &SequenceNumberCounter,
    ) -> /*+*/(r:/*-*/ Result<(), Error>/*+*/)
        requires old(self).0.view().len() > 0, seqno < u64::MAX,
            forall|x: &SuperVersion| call_requires(f, (x,)),
        ensures
            r is Err ==> final(self).0.view() == old(self).0.view(),                       // C16.1: a failed step changes nothing
            r is Ok ==> final(self).0.view().len() == old(self).0.view().len() + 1
                && final(self).0.view().drop_last() == old(self).0.view()
                && final(self).0.view().last().seqno == seqno
                && (exists|sv: SuperVersion| #[trigger] call_ensures(f, (&old(self).0.view().last(),), Ok::<SuperVersion, Error>(sv)) && final(self).0.view().last().version == sv.version),/*-*/
    {
        let mut next_version = f(&self.latest_version())?;
        next_version.seqno = seqno;

        persist_version(tree_path, &next_version.version)?;
        self.append_version(next_version);

        visible_seqno.fetch_max(seqno + 1);

        Ok(())
    }
//@ END

//@ FROM src/version/super_version.rs :: impl SuperVersions :: fn len :: OBL C02.3
    fn len(&self) -> /*+*/(r:/*-*/ usize/*+*/) ensures r == self.0.view().len()/*-*/ {
        self.0.len()
    }
//@ END

//@ FROM src/version/super_version.rs :: impl SuperVersions :: fn free_list_len :: OBL C02.3
    fn free_list_len(&self) -> /*+*/(r:/*-*/ usize/*+*/) ensures r == (if self.0.view().len() == 0 { 0int } else { self.0.view().len() - 1 })/*-*/ {
        self.len().saturating_sub(1)
    }
//@ END

    // ---- near-verbatim from /repo/src/version/super_version.rs (logging dropped by R2, format! by R12, std::fs by R9) ----
//@ FROM src/version/super_version.rs :: impl SuperVersions :: fn maintenance :: OBL C02.3, C20.1
//@ SUBST `crate :: Result < ( ) >` ==> `Result<(), Error>`
//@ SUBST `format ! ( "v{}" , head . version . id ( ) )` ==> `version_file_name(head.version.id())`
//@ SUBST `crate :: file :: retry_transient_io` ==> `retry_transient_io`
//@ SUBST `std :: fs :: remove_file` ==> `vfs::remove_file`
//@ SUBST `for _ in` ==> `for _i in`
    fn maintenance(&mut self, folder: &Path, gc_watermark: SeqNo) -> /*+*/(r:/*-*/ Result<(), Error>/*+*/)
        requires old(self).0.view().len() > 0,
        ensures
            // a prefix is removed, never the newest entry
            exists|n: int| 0 <= n < old(self).0.view().len() && final(self).0.view() == old(self).0.view().skip(n)
                // whenever anything was removed, an entry below the watermark is still kept (so every snapshot above the watermark still resolves to the same entry)
                && (n > 0 ==> exists|q: int| n <= q < old(self).0.view().len() && (#[trigger] old(self).0.view()[q]).seqno < gc_watermark),/*-*/
    {
        if gc_watermark == 0 {
            /*+*/proof { assert(self.0.view().skip(0) =~= self.0.view()); }/*-*/
            return Ok(());
        }

        if self.free_list_len() < 1 {
            /*+*/proof { assert(self.0.view().skip(0) =~= self.0.view()); }/*-*/
            return Ok(());
        }

        /*+*/let ghost v0 = self.0.view();
        proof { assert(v0.skip(0) =~= v0); }/*-*/
        if let Some(hi_idx) = self.0.iter().rposition(|x/*+*/: &SuperVersion/*-*/| /*+*/-> (b: bool) ensures b == (/*-*/x.seqno < gc_watermark) { /*+*/x.seqno < gc_watermark }) {
            let ghost mut c: int = 0;/*-*/
            for _i in 0..hi_idx
                /*+*/invariant
                    0 <= c <= _i, hi_idx < v0.len(), self.0.view() == v0.skip(c), v0 == old(self).0.view(),
                    v0[hi_idx as int].seqno < gc_watermark,/*-*/
            {
                let Some(head) = self.0.front() else {
                    break;
                };

                let path = folder.join(version_file_name(head.version.id()));
                /*+*/proof { assert(path.vid() == v0[c].version.id && c < hi_idx); }/*-*/   // @OBL C20.1
                if path.try_exists()? {
                    retry_transient_io(|| vfs::remove_file(&path))?;
                }

                self.0.pop_front();
                /*+*/proof { assert(v0.skip(c).skip(1) =~= v0.skip(c + 1)); c = c + 1; }/*-*/
            }
        }

        Ok(())
    }
//@ END

    // ---- near-verbatim from /repo/src/version/super_version.rs (logging dropped by R2) ----
//@ FROM src/version/super_version.rs :: impl SuperVersions :: fn get_version_for_snapshot :: OBL C02.2
//@ SUBST `if version . is_none ( ) { for version in self . 0 . iter ( ) . rev ( ) { } }` ==> ``
    fn get_version_for_snapshot(&self, seqno: SeqNo) -> /*+*/(r:/*-*/ SuperVersion/*+*/)
        requires self.0.view().len() > 0, seqno > 0 ==> exists|i: int| 0 <= i < self.0.view().len() && (#[trigger] self.0.view()[i]).seqno < seqno,
        ensures
            seqno == 0 ==> r == self.0.view()[0],
            seqno > 0 ==> exists|i: int| 0 <= i < self.0.view().len() && r == #[trigger] self.0.view()[i] && r.seqno < seqno
                && (forall|j: int| i < j < self.0.view().len() ==> !((#[trigger] self.0.view()[j]).seqno < seqno)),/*-*/
    {
        if seqno == 0 {
            return self
                .0
                .front()
                .cloned()
                .expect("should always find a SuperVersion");
        }

        let version = self
            .0
            .iter()
            .rev()
            .find(|version/*+*/: &&SuperVersion/*-*/| /*+*/-> (b: bool) ensures b == (version.seqno < seqno) {/*-*/ version.seqno < seqno /*+*/}/*-*/)
            .cloned();

        version.expect("should always find a SuperVersion")
    }
//@ END
}


/// `i` is what get_version_for_snapshot(S) returns on history `h` (its postcondition)
pub open spec fn resolves_to(h: Seq<SuperVersion>, s: SeqNo, i: int) -> bool {
    0 <= i < h.len() && h[i].seqno < s && (forall|j: int| i < j < h.len() ==> !((#[trigger] h[j]).seqno < s))
}

/// Lemma GC (C02.7): what `maintenance` guarantees is enough for every snapshot above the watermark
/// to keep resolving to the same super version.
pub proof fn lemma_gc_keeps_resolution(h: Seq<SuperVersion>, n: int, w: SeqNo, s: SeqNo, i: int)
    requires
        0 <= n < h.len(),
        n > 0 ==> exists|q: int| n <= q < h.len() && (#[trigger] h[q]).seqno < w,
        w < s,
        resolves_to(h, s, i),
    ensures
        i >= n,
        resolves_to(h.skip(n), s, i - n),
        h.skip(n)[i - n] == h[i],
{
    if n > 0 {
        let q = choose|q: int| n <= q < h.len() && (#[trigger] h[q]).seqno < w;
        // h[q] is visible at s, so the newest visible entry is at or after q
        if i < q { assert(!(h[q].seqno < s)); }
    }
    assert forall|j: int| i - n < j < h.skip(n).len() implies !((#[trigger] h.skip(n)[j]).seqno < s) by {
        assert(h.skip(n)[j] == h[j + n]);
    }
}

} // verus!
fn main() {}
