//@ UNIT table_get
// Table::get and Table::point_read (src/table/mod.rs): a point read of one table returns the newest version of the key
// that is visible at the snapshot - after translating the snapshot by the table's global seqno, consulting the
// (pinned / partitioned / full) filter, seeking the block index and probing data blocks - or None if there is none.
// This is the contract `TABLE_GET` that unit read_path assumes.  Obligations C01.12, C12.10, C14.5
use vstd::prelude::*;
use vstd::std_specs::cmp::*;
verus! {

global size_of usize == 8;

//@ INCLUDE prelude/key.rs
//@ INCLUDE prelude/entry.rs

//@ INCLUDE prelude/content.rs

/// `r` is the answer of the table for key k at local snapshot s
spec fn answer_is(c: Content, g: SeqNo, k: int, s: SeqNo, r: Option<InternalValue>) -> bool {
    match r {
        Some(v) => exists|i: int| #[trigger] c.cand(i, k, s) && (forall|j: int| 0 <= j < i ==> !c.cand(j, k, s)) && v == lifted(c.items[i], g),
        None => forall|i: int| !c.cand(i, k, s),
    }
}

/// xxh3 of the key bytes as used by the bloom filter (a function of the key)
uninterp spec fn key_hash_of(k: int) -> u64;

#[derive(Copy, Clone, PartialEq, Eq, Structural)]
enum BlockType { Data, Index, Filter, Meta }
#[derive(Copy, Clone, PartialEq, Eq, Structural)]
enum CompressionType { None }
/// where a block lives; `what` says which block of the table this handle addresses (ghost)
#[derive(Copy, Clone, PartialEq, Eq, Structural)]
enum What { Data(int), Filter(int), Other }
struct BlockHandle { ghost what: What }
struct Block { ghost what: What }
struct KeyedBlockHandle { end_key: UserKey, inner: BlockHandle }
impl KeyedBlockHandle {
    fn end_key(&self) -> (r: &UserKey) ensures r == &self.end_key { &self.end_key }
    fn as_ref(&self) -> (r: &BlockHandle) ensures r == &self.inner { &self.inner }
    fn into_inner(self) -> (r: BlockHandle) ensures r == self.inner { self.inner }
}
/// DataBlock::point_read (binary index / hash index search inside one block, TRUSTED): the first entry of the block
/// that is a version of the key below the snapshot
struct DataBlock { ghost c: Content, ghost b: int }
impl DataBlock {
    #[verifier::external_body]
    fn point_read(&self, key: KeyRef, seqno: SeqNo) -> (r: Option<InternalValue>)
        ensures match r {
            Some(v) => exists|i: int| self.c.lo(self.b) <= i < self.c.hi(self.b) && #[trigger] self.c.cand(i, key.rank(), seqno)
                && (forall|j: int| self.c.lo(self.b) <= j < i ==> !self.c.cand(j, key.rank(), seqno)) && v == self.c.items[i],
            None => forall|i: int| self.c.lo(self.b) <= i < self.c.hi(self.b) ==> !self.c.cand(i, key.rank(), seqno),
        }
    { unimplemented!() }
}
/// bloom filter block (TRUSTED: no false negatives for the keys it was built from)
struct FilterBlock { ghost what: What }
uninterp spec fn may_hold(what: What, hash: u64) -> bool;
impl FilterBlock {
    #[verifier::external_body]
    fn new(block: Block) -> (r: Self) ensures r.what == block.what { unimplemented!() }
    #[verifier::external_body]
    fn maybe_contains_hash(&self, hash: u64) -> (r: Result<bool, Error>) ensures r is Ok ==> r->Ok_0 == may_hold(self.what, hash) { unimplemented!() }
}
/// std::borrow::Cow<FilterBlock>
enum Cow<'a> { Borrowed(&'a FilterBlock), Owned(FilterBlock) }
impl<'a> Cow<'a> {
    spec fn what(&self) -> What { match self { Cow::Borrowed(b) => b.what, Cow::Owned(b) => b.what } }
    fn maybe_contains_hash(&self, hash: u64) -> (r: Result<bool, Error>) ensures r is Ok ==> r->Ok_0 == may_hold(self.what(), hash)
    { match self { Cow::Borrowed(b) => b.maybe_contains_hash(hash), Cow::Owned(b) => b.maybe_contains_hash(hash) } }
}
/// partitioned filter: top-level index over filter partitions (TRUSTED: after seek(key) the next entry addresses the
/// partition responsible for `key`; if there is none the table does not contain the key)
struct IndexBlock { ghost c: Content }
struct Bytes { p: u8 }
struct IndexIter { ghost c: Content, ghost sought: Option<int> }
struct ParsedHandle { ghost part: int }
impl IndexBlock {
    #[verifier::external_body]
    fn iter(&self) -> (r: IndexIter) ensures r.c == self.c, r.sought is None { unimplemented!() }
    #[verifier::external_body]
    fn as_slice(&self) -> (r: &Bytes) { unimplemented!() }
}
/// partition p of the filter answers for key k
uninterp spec fn partition_covers(c: Content, p: int, k: int) -> bool;
impl IndexIter {
    #[verifier::external_body]
    fn seek(&mut self, key: KeyRef, seqno: SeqNo) -> (r: bool) ensures final(self).c == old(self).c, final(self).sought == Some(key.rank()) { unimplemented!() }
    #[verifier::external_body]
    fn next(&mut self) -> (r: Option<ParsedHandle>)
        ensures old(self).sought is Some ==> match r { Some(h) => partition_covers(old(self).c, h.part, old(self).sought->Some_0), None => !old(self).c.has_key(old(self).sought->Some_0) }
    { unimplemented!() }
}
impl ParsedHandle {
    #[verifier::external_body]
    fn materialize(self, bytes: &Bytes) -> (r: KeyedBlockHandle) ensures r.inner.what == What::Filter(self.part) { unimplemented!() }
}

/// block index (TRUSTED, from src/table/index_block/iter.rs: seek and the per-variant forward_reader): positions on the
/// first block the seek predicate does not skip, None if it skips all; then yields one handle per block in order
struct BlockIndexImpl { ghost c: Content }
struct BlockIndexIterImpl { ghost c: Content, ghost pos: int }
impl BlockIndexImpl {
    #[verifier::external_body]
    fn forward_reader(&self, needle: KeyRef, seqno: SeqNo) -> (r: Option<BlockIndexIterImpl>)
        ensures match r {
            Some(it) => it.c == self.c && 0 <= it.pos < self.c.nblocks() && !self.c.skipped(it.pos, needle.rank(), seqno)
                && forall|b: int| 0 <= b < it.pos ==> #[trigger] self.c.skipped(b, needle.rank(), seqno),
            None => forall|b: int| 0 <= b < self.c.nblocks() ==> #[trigger] self.c.skipped(b, needle.rank(), seqno),
        }
    { unimplemented!() }
}
impl BlockIndexIterImpl {
    #[verifier::external_body]
    fn next(&mut self) -> (r: Option<Result<KeyedBlockHandle, Error>>)
        ensures final(self).c == old(self).c,
            old(self).pos >= old(self).c.nblocks() ==> r is None && final(self).pos == old(self).pos,
            old(self).pos < old(self).c.nblocks() ==> r is Some && final(self).pos == old(self).pos + 1
                && (r->Some_0 is Ok ==> r->Some_0->Ok_0.inner.what == What::Data(old(self).pos)
                    && r->Some_0->Ok_0.end_key.rank() == old(self).c.end(old(self).pos).key.user_key.rank()),
    { unimplemented!() }
}
/// `iter.map_while(Result::ok)` (std): yields the Ok payloads and ENDS at the first Err - an adapter that swallows the error
struct MapWhileOk { ghost c: Content, ghost pos: int }
#[verifier::external_body]
fn map_while_ok(it: BlockIndexIterImpl) -> (r: MapWhileOk) ensures r.c == it.c, r.pos == it.pos { unimplemented!() }
impl MapWhileOk {
    #[verifier::external_body]
    fn next(&mut self) -> (r: Option<KeyedBlockHandle>)
        ensures final(self).c == old(self).c,
            old(self).pos >= old(self).c.nblocks() ==> r is None && final(self).pos == old(self).pos,
            // inside the index the next handle is yielded - or the iteration ends because loading it failed
            old(self).pos < old(self).c.nblocks() ==> (r is None && final(self).pos == old(self).pos) || (r is Some && final(self).pos == old(self).pos + 1
                && r->Some_0.inner.what == What::Data(old(self).pos) && r->Some_0.end_key.rank() == old(self).c.end(old(self).pos).key.user_key.rank()),
    { unimplemented!() }
}

struct Metadata { seqnos: (SeqNo, SeqNo) }
struct Regions { filter_tli: Option<BlockHandle>, filter: Option<BlockHandle> }
/// Table(Arc<Inner>) with the fields get / point_read touch (rule R8); `c` is the ghost content
struct Table {
    metadata: Metadata,
    regions: Regions,
    block_index: Box<BlockIndexImpl>,
    pinned_filter_index: Option<IndexBlock>,
    pinned_filter_block: Option<FilterBlock>,
    g: SeqNo,
    ghost c: Content,
}
impl Table {
    /// what Table::recover / the table writer establish (not checked here)
    spec fn wf(&self) -> bool {
        self.c.wf() && self.block_index.c == self.c
        // metadata.seqnos.0 is the smallest seqno stored (writer, C18.1); lifted seqnos fit (seqnos are < 2^63)
        && (forall|i: int| 0 <= i < self.c.items.len() ==> self.metadata.seqnos.0 <= (#[trigger] self.c.items[i]).key.seqno && self.c.items[i].key.seqno + self.g <= u64::MAX)
        // an unpinned filter TLI is never used: recover pins the filter index whenever the table has one
        && (self.regions.filter_tli is Some ==> self.pinned_filter_index is Some || self.pinned_filter_block is Some)
        && (self.pinned_filter_index is Some ==> self.pinned_filter_index->Some_0.c == self.c)
        // bloom filters have no false negatives: a full filter answers for every key of the table, a partition for the keys it covers
        && (self.pinned_filter_block is Some ==> forall|k: int| self.c.has_key(k) ==> #[trigger] may_hold(self.pinned_filter_block->Some_0.what, key_hash_of(k)))
        && (self.regions.filter is Some ==> forall|k: int| self.c.has_key(k) ==> #[trigger] may_hold(self.regions.filter->Some_0.what, key_hash_of(k)))
        && (forall|p: int, k: int| #[trigger] partition_covers(self.c, p, k) && self.c.has_key(k) ==> may_hold(What::Filter(p), key_hash_of(k)))
    }
    fn global_seqno(&self) -> (r: SeqNo) ensures r == self.g { self.g }
    /// Table::load_block -> table::util::load_block (unit block_io, C10.3): the verified block the handle addresses
    #[verifier::external_body]
    fn load_block(&self, handle: &BlockHandle, block_type: BlockType, compression: CompressionType) -> (r: Result<Block, Error>)
        ensures r is Ok ==> r->Ok_0.what == handle.what
    { unimplemented!() }
    /// Table::load_data_block = load_block(.., Data, ..).map(DataBlock::new)
    #[verifier::external_body]
    fn load_data_block(&self, handle: &BlockHandle) -> (r: Result<DataBlock, Error>)
        ensures r is Ok ==> r->Ok_0.c == self.c && handle.what == What::Data(r->Ok_0.b)
    { unimplemented!() }
}


/// a block the index seek skips, and every block before it, holds no candidate
proof fn lemma_skipped_no_cand(c: Content, b: int, k: int, s: SeqNo)
    requires c.wf(), 0 <= b < c.nblocks(), c.skipped(b, k, s)
    ensures forall|i: int| 0 <= i < c.hi(b) ==> !c.cand(i, k, s)
{
    lemma_cuts_mono(c, b, b + 1);
    lemma_cuts_mono(c, 0, b);
    assert(c.cuts[b] < c.cuts[b + 1]);
    let e = c.hi(b) - 1;
    assert forall|i: int| 0 <= i < c.hi(b) implies !c.cand(i, k, s) by {
        if i < e { assert(before(c.items[i], c.items[e])); }
    }
}
/// after a block whose last key is above k there is no candidate
proof fn lemma_past_end_no_cand(c: Content, b: int, k: int, s: SeqNo)
    requires c.wf(), 0 <= b < c.nblocks(), c.end(b).key.user_key.rank() > k
    ensures forall|i: int| c.hi(b) <= i ==> !c.cand(i, k, s)
{
    lemma_cuts_mono(c, b, b + 1);
    lemma_cuts_mono(c, 0, b);
    assert(c.cuts[b] < c.cuts[b + 1]);
    let e = c.hi(b) - 1;
    assert forall|i: int| c.hi(b) <= i implies !c.cand(i, k, s) by {
        if i < c.items.len() { assert(before(c.items[e], c.items[i])); }
    }
}

//@ SUBST `& [ u8 ]` ==> `KeyRef`
//@ SUBST `crate :: Result < Option < InternalValue > >` ==> `Result<Option<InternalValue>, Error>`
impl Table {
//@ FROM src/table/mod.rs :: impl Table :: fn get :: OBL C01.12, C14.5
    fn get(
        &self,
        key: KeyRef,
        seqno: SeqNo,
        key_hash: u64,
    ) -> /*+*/(r:/*-*/ Result<Option<InternalValue>, Error>/*+*/)
        requires self.wf(), key_hash == key_hash_of(key.rank())
        ensures r is Ok ==> answer_is(self.c, self.g, key.rank(), if seqno >= self.g { (seqno - self.g) as SeqNo } else { 0 }, r->Ok_0)/*-*/
    {
        // Translate seqno to "our" seqno
        let seqno = seqno.saturating_sub(self.global_seqno());

        if self.metadata.seqnos.0 >= seqno {
            return Ok(None);
        }

        let filter_block = if let Some(block) = &self.pinned_filter_block {
            Some(Cow::Borrowed(block))
        } else if let Some(filter_idx) = &self.pinned_filter_index {
            let mut iter = filter_idx.iter();
            iter.seek(key, seqno);

            if let Some(filter_block_handle) = iter.next() {
                let filter_block_handle = filter_block_handle.materialize(filter_idx.as_slice());

                let block = self.load_block(
                    &filter_block_handle.into_inner(),
                    BlockType::Filter,
                    CompressionType::None, // NOTE: We never write a filter block with compression
                )?;
                let block = FilterBlock::new(block);

                Some(Cow::Owned(block))
            } else {
                None
            }
        } else if let Some(_filter_tli_handle) = &self.regions.filter_tli {
            unimplemented!("unpinned filter TLI not supported");
        } else if let Some(filter_block_handle) = &self.regions.filter {
            let block = self.load_block(
                filter_block_handle,
                BlockType::Filter,
                CompressionType::None, // NOTE: We never write a filter block with compression
            )?;
            let block = FilterBlock::new(block);

            Some(Cow::Owned(block))
        } else {
            None
        };

        if let Some(filter_block) = &filter_block {
            if !filter_block.maybe_contains_hash(key_hash)? {
                return Ok(None);
            }
        }

        let item = self.point_read(key, seqno);

        {
            item
        }
    }
//@ END

//@ FROM src/table/mod.rs :: impl Table :: fn point_read :: OBL C01.12, C12.10, C14.5, C10.15
//@ SUBST `for block_handle in iter . map_while ( Result :: ok ) {` ==> `let mut iter__ = map_while_ok(iter); loop { let Some(block_handle) = iter__.next() else { break; };`
//@ SUBST `for block_handle in iter {` ==> `let mut iter__ = iter; loop { let Some(block_handle) = iter__.next() else { break; };`
    fn point_read(&self, key: KeyRef, seqno: SeqNo) -> /*+*/(r:/*-*/ Result<Option<InternalValue>, Error>/*+*/)
        requires self.wf()
        ensures r is Ok ==> answer_is(self.c, self.g, key.rank(), seqno, r->Ok_0)/*-*/
    {
        /*+*/let ghost c = self.c; let ghost k = key.rank();/*-*/
        let Some(iter) = self.block_index.forward_reader(key, seqno) else {
            /*+*/proof {
                if c.nblocks() > 0 { lemma_skipped_no_cand(c, c.nblocks() - 1, k, seqno); }
            }/*-*/
            return Ok(None);
        };
        /*+*/proof {
            if iter.pos > 0 { lemma_skipped_no_cand(c, iter.pos - 1, k, seqno); }
            lemma_cuts_mono(c, 0, iter.pos);
        }/*-*/

        let mut iter__ = iter; loop
            /*+*/invariant self.wf(), c == self.c, k == key.rank(), iter__.c == c, 0 <= iter__.pos <= c.nblocks(),
                forall|i: int| 0 <= i < c.cuts[iter__.pos] ==> !c.cand(i, k, seqno),
            ensures iter__.pos == c.nblocks(),
            decreases c.nblocks() - iter__.pos,/*-*/
        {
            /*+*/let ghost b = iter__.pos;/*-*/
            let Some(block_handle) = iter__.next() else { break; };
            let block_handle = block_handle?;

            let block = self.load_data_block(block_handle.as_ref())?;

            /*+*/proof { lemma_cuts_mono(c, b, b + 1); assert(block.b == b); }/*-*/
            if let Some(mut item) = block.point_read(key, seqno) {
                /*+*/let ghost it0 = item;/*-*/
                item.key.seqno += self.global_seqno();
                /*+*/proof { assert(item == lifted(it0, self.g)); }/*-*/
                return Ok(Some(item));
            }

            // NOTE: If the last block key is higher than ours,
            // our key cannot be in the next block
            if block_handle.end_key() > &key {
                /*+*/proof { lemma_past_end_no_cand(c, b, k, seqno); }/*-*/
                return Ok(None);
            }
        }

        /*+*/proof { assert(c.cuts[c.nblocks()] == c.items.len()); }/*-*/
        Ok(None)
    }
//@ END
}

}
fn main() {}
