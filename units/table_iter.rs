//@ UNIT table_iter
// table::Iter (src/table/iter.rs): Iterator::next and DoubleEndedIterator::next_back of the ranged table iterator.
// Contract (soundness of every emit site): whatever the iterator yields, from either end and on every path, is an entry
// stored in this table, inside the range bounds, with the table's global seqno added.  Obligations C03.7, C12.11, C14.6
use vstd::prelude::*;
use vstd::std_specs::cmp::*;
use std::sync::Arc;

//@ FROM src/lib.rs :: - :: macro_rules fail_iter
//@ SUBST `e . into ( )` ==> `e`
macro_rules! fail_iter {
    ($e:expr) => {
        match $e {
            Ok(v) => v,
            Err(e) => return Some(Err(e)),
        }
    };
}
//@ END

verus! {

global size_of usize == 8;

//@ INCLUDE prelude/key.rs
//@ INCLUDE prelude/entry.rs
//@ INCLUDE prelude/content.rs

//@ SUBST `Bound` ==> `TBound`
//@ FROM src/table/iter.rs :: - :: enum Bound
enum TBound {
    Included(UserKey),
    Excluded(UserKey),
}
//@ END
//@ FROM src/table/iter.rs :: - :: type Bounds
type Bounds = (Option<TBound>, Option<TBound>);
//@ END

spec fn lower_ok(b: Option<TBound>, k: int) -> bool { match b { Some(TBound::Included(x)) => x.rank() <= k, Some(TBound::Excluded(x)) => x.rank() < k, None => true } }
spec fn upper_ok(b: Option<TBound>, k: int) -> bool { match b { Some(TBound::Included(x)) => k <= x.rank(), Some(TBound::Excluded(x)) => k < x.rank(), None => true } }
/// entry i of the table lies inside the range
spec fn in_range(c: Content, r: Bounds, i: int) -> bool {
    0 <= i < c.items.len() && lower_ok(r.0, c.items[i].key.user_key.rank()) && upper_ok(r.1, c.items[i].key.user_key.rank())
}

// ---------------- prelude (TRUSTED): blocks, block readers, block index iterator, cache / loader ----------------
struct GlobalTableId { p: u64 }
impl Clone for GlobalTableId { fn clone(&self) -> (r: Self) ensures r == *self { GlobalTableId { p: self.p } } }
impl Copy for GlobalTableId {}
#[verifier::external_body] struct PathBuf { p: u8 }
#[verifier::external_body] struct FileAccessor { p: u8 }
#[derive(Copy, Clone, PartialEq, Eq, Structural)]
enum CompressionType { None }
#[derive(Copy, Clone, PartialEq, Eq, Structural)]
enum BlockType { Data, Index, Filter, Meta }
#[derive(Copy, Clone, PartialEq, Eq, Structural)]
struct BlockOffset(u64);
/// which data block of the table starts at a file offset (ghost; block offsets are distinct)
uninterp spec fn blk_of(offset: u64) -> int;
struct BlockHandle { offset: BlockOffset, size: u32 }
impl BlockHandle { fn new(offset: BlockOffset, size: u32) -> (r: Self) ensures r.offset == offset, r.size == size { BlockHandle { offset, size } } }
struct KeyedBlockHandle { offset: BlockOffset, size: u32 }
impl KeyedBlockHandle {
    fn offset(&self) -> (r: BlockOffset) ensures r == self.offset { self.offset }
    fn size(&self) -> (r: u32) ensures r == self.size { self.size }
}
/// a loaded data block of the table with content c: block number idx
struct Block { ghost c: Content, ghost idx: int }
struct DataBlock { ghost c: Content, ghost idx: int }
impl DataBlock {
    #[verifier::external_body]
    fn new(block: Block) -> (r: Self) ensures r.c == block.c, r.idx == block.idx { unimplemented!() }
}
/// the block cache and the loader hand out the verified block stored at the offset (C10.3, unit block_io)
struct Cache { ghost c: Content }
impl Cache {
    #[verifier::external_body]
    fn get_block(&self, id: GlobalTableId, offset: BlockOffset) -> (r: Option<Block>)
        ensures r is Some ==> r->Some_0.c == self.c && r->Some_0.idx == blk_of(offset.0)
    { unimplemented!() }
}
#[verifier::external_body]
fn load_block(table_id: GlobalTableId, path: &Arc<PathBuf>, file_accessor: &FileAccessor, cache: &Arc<Cache>, handle: &BlockHandle,
    block_type: BlockType, compression: CompressionType) -> (r: Result<Block, Error>)
    ensures r is Ok ==> r->Ok_0.c == cache.c && r->Ok_0.idx == blk_of(handle.offset.0)
{ unimplemented!() }

/// OwnedDataBlockIter (self_cell over data_block::Iter, TRUSTED): a double-ended cursor [l, h) over the entries of one
/// block; seeks only narrow it, and after a seek every remaining entry satisfies the bound
struct OwnedDataBlockIter { ghost c: Content, ghost l: int, ghost h: int }
impl OwnedDataBlockIter {
    spec fn inside(&self) -> bool { 0 <= self.l <= self.h <= self.c.items.len() }
    #[verifier::external_body]
    fn seek_lower_bound(&mut self, bound: &TBound, seqno: SeqNo) -> (r: bool)
        ensures final(self).c == old(self).c, old(self).l <= final(self).l, final(self).h <= old(self).h, final(self).l <= final(self).h || final(self).l == old(self).l,
            forall|i: int| final(self).l <= i < final(self).h ==> lower_ok(Some(*bound), (#[trigger] old(self).c.items[i]).key.user_key.rank())
    { unimplemented!() }
    #[verifier::external_body]
    fn seek_upper_bound(&mut self, bound: &TBound, seqno: SeqNo) -> (r: bool)
        ensures final(self).c == old(self).c, old(self).l <= final(self).l, final(self).h <= old(self).h, final(self).l <= final(self).h || final(self).l == old(self).l,
            forall|i: int| final(self).l <= i < final(self).h ==> upper_ok(Some(*bound), (#[trigger] old(self).c.items[i]).key.user_key.rank())
    { unimplemented!() }
    #[verifier::external_body]
    fn next(&mut self) -> (r: Option<InternalValue>)
        ensures final(self).c == old(self).c, final(self).h == old(self).h,
            match r { Some(v) => old(self).l < old(self).h && v == old(self).c.items[old(self).l] && final(self).l == old(self).l + 1,
                      None => final(self).l == old(self).l }
    { unimplemented!() }
    #[verifier::external_body]
    fn next_back(&mut self) -> (r: Option<InternalValue>)
        ensures final(self).c == old(self).c, final(self).l == old(self).l,
            match r { Some(v) => old(self).l < old(self).h && v == old(self).c.items[old(self).h - 1] && final(self).h == old(self).h - 1,
                      None => final(self).h == old(self).h }
    { unimplemented!() }
}
/// create_data_block_reader: a cursor over the whole block
#[verifier::external_body]
fn create_data_block_reader(block: DataBlock) -> (r: OwnedDataBlockIter)
    ensures r.c == block.c, 0 <= block.idx < block.c.nblocks() ==> r.l == block.c.lo(block.idx) && r.h == block.c.hi(block.idx)
{ unimplemented!() }

/// block index iterator (TRUSTED): yields handles of data blocks of this table (or errors); seeks only narrow it
struct BlockIndexIterImpl { ghost c: Content }
impl BlockIndexIterImpl {
    #[verifier::external_body]
    fn seek_lower(&mut self, key: &UserKey, seqno: SeqNo) -> (r: bool) ensures final(self).c == old(self).c { unimplemented!() }
    #[verifier::external_body]
    fn seek_upper(&mut self, key: &UserKey, seqno: SeqNo) -> (r: bool) ensures final(self).c == old(self).c { unimplemented!() }
    #[verifier::external_body]
    fn next(&mut self) -> (r: Option<Result<KeyedBlockHandle, Error>>)
        ensures final(self).c == old(self).c, r is Some && r->Some_0 is Ok ==> 0 <= blk_of(r->Some_0->Ok_0.offset.0) < old(self).c.nblocks()
    { unimplemented!() }
    #[verifier::external_body]
    fn next_back(&mut self) -> (r: Option<Result<KeyedBlockHandle, Error>>)
        ensures final(self).c == old(self).c, r is Some && r->Some_0 is Ok ==> 0 <= blk_of(r->Some_0->Ok_0.offset.0) < old(self).c.nblocks()
    { unimplemented!() }
}

//@ FROM src/table/iter.rs :: - :: struct Iter
struct Iter {
    table_id: GlobalTableId,
    path: Arc<PathBuf>,

    global_seqno: SeqNo,

    index_iter: BlockIndexIterImpl,

    file_accessor: FileAccessor,
    cache: Arc<Cache>,
    compression: CompressionType,

    index_initialized: bool,

    lo_offset: BlockOffset,
    lo_data_block: Option<OwnedDataBlockIter>,

    hi_offset: BlockOffset,
    hi_data_block: Option<OwnedDataBlockIter>,

    range: Bounds,
}
//@ END

spec fn reader_ok(r: Option<OwnedDataBlockIter>, c: Content, range: Bounds) -> bool {
    r is Some ==> r->Some_0.c == c && r->Some_0.l >= 0 && r->Some_0.h <= c.items.len() && forall|i: int| r->Some_0.l <= i < r->Some_0.h ==> #[trigger] in_range(c, range, i)
}
impl Iter {
    spec fn cc(&self) -> Content { self.cache.c }
    spec fn rr(&self) -> Bounds { self.range }
    /// representation invariant: both materialised block cursors only hold entries of this table inside the range
    spec fn inv(&self) -> bool {
        self.cache.c.wf() && self.index_iter.c == self.cache.c
        && reader_ok(self.lo_data_block, self.cache.c, self.range) && reader_ok(self.hi_data_block, self.cache.c, self.range)
        && forall|i: int| 0 <= i < self.cache.c.items.len() ==> (#[trigger] self.cache.c.items[i]).key.seqno + self.global_seqno <= u64::MAX
    }
    /// `r` is a legal item of the iteration: an error, or a stored entry inside the range with the global seqno added
    spec fn legal(&self, r: Option<Result<InternalValue, Error>>) -> bool {
        r is Some && r->Some_0 is Ok ==> exists|i: int| #[trigger] in_range(self.cache.c, self.range, i) && r->Some_0->Ok_0 == lifted(self.cache.c.items[i], self.global_seqno)
    }

//@ FROM src/table/iter.rs :: impl Iter :: fn set_lower_bound :: OBL C03.7
    fn set_lower_bound(&mut self, bound: TBound/*+*/)
        requires old(self).inv(), old(self).lo_data_block is None, old(self).hi_data_block is None
        ensures final(self).inv(), final(self).range == (Some(bound), old(self).range.1/*-*/)
    {
        self.range.0 = Some(bound);
    }
//@ END
//@ FROM src/table/iter.rs :: impl Iter :: fn set_upper_bound :: OBL C03.7
    fn set_upper_bound(&mut self, bound: TBound/*+*/)
        requires old(self).inv(), old(self).lo_data_block is None, old(self).hi_data_block is None
        ensures final(self).inv(), final(self).range == (old(self).range.0, Some(bound)/*-*/)
    {
        self.range.1 = Some(bound);
    }
//@ END

//@ FROM src/table/iter.rs :: impl Iterator for Iter :: fn next :: OBL C03.7, C12.11, C14.6
//@ SUBST `. map ( Ok )` ==> `.map(|x__| Ok(x__))`
//@ SUBST `| mut v | {` ==> `|v| { let mut v = v;`
//@ SUBST `Option < Self :: Item >` ==> `Option<Result<InternalValue, Error>>`
//@ SUBST `crate :: table :: block :: BlockType :: Data` ==> `BlockType::Data`
    /*+*/#[verifier::exec_allows_no_decreases_clause]/*-*/
    fn next(&mut self) -> /*+*/(r:/*-*/ Option<Result<InternalValue, Error>>/*+*/)
        requires old(self).inv()
        ensures final(self).inv(), final(self).range == old(self).range, final(self).global_seqno == old(self).global_seqno, final(self).cache == old(self).cache,
            final(self).legal(r)/*-*/
    {
        /*+*/let ghost g = self.global_seqno; let ghost c = self.cc(); let ghost range = self.rr();/*-*/
        if let Some(block) = &mut self.lo_data_block {
            /*+*/let ghost l0 = block.l;
            proof { if block.l < block.h { assert(in_range(c, range, l0)); } }/*-*/
            if let Some(item) = block
                .next()
                .map(|v/*+*/: InternalValue/*-*/| /*+*/-> (r: InternalValue) requires v.key.seqno + g <= u64::MAX ensures r == lifted(v, g)/*-*/ { let mut v = v;
                    v.key.seqno += self.global_seqno;
                    v
                })
                .map(|x__/*+*/: InternalValue/*-*/| /*+*/-> (r: Result<InternalValue, Error>) ensures r == Ok::<InternalValue, Error>(x__) {/*-*/ Ok(x__) /*+*/}/*-*/)
            {
                return Some(item);
            }
        }

        if !self.index_initialized {
            let mut ok = if let Some(bound) = &self.range.0 {
                let key = match bound {
                    TBound::Included(k) | TBound::Excluded(k) => k,
                };
                self.index_iter.seek_lower(key, u64::MAX)
            } else {
                true
            };

            if ok {
                if let Some(bound) = &self.range.1 {
                    let key = match bound {
                        TBound::Included(k) | TBound::Excluded(k) => k,
                    };
                    ok = self.index_iter.seek_upper(key, u64::MAX);
                }
            }

            self.index_initialized = true;

            if !ok {
                self.lo_data_block = None;
                self.hi_data_block = None;
                return None;
            }
        }

        loop
            /*+*/invariant self.inv(), g == self.global_seqno, c == self.cc(), range == self.rr(), self.cache == old(self).cache,/*-*/
        {
            let Some(handle) = self.index_iter.next() else {
                if let Some(block) = &mut self.hi_data_block {
                    /*+*/let ghost l0 = block.l;
                    proof { if block.l < block.h { assert(in_range(c, range, l0)); } assert(self.global_seqno == g); }/*-*/
                    if let Some(item) = block
                        .next()
                        .map(|v/*+*/: InternalValue/*-*/| /*+*/-> (r: InternalValue) requires v.key.seqno + g <= u64::MAX ensures r == lifted(v, g)/*-*/ { let mut v = v;
                            v.key.seqno += self.global_seqno;
                            v
                        })
                        .map(|x__/*+*/: InternalValue/*-*/| /*+*/-> (r: Result<InternalValue, Error>) ensures r == Ok::<InternalValue, Error>(x__) {/*-*/ Ok(x__) /*+*/}/*-*/)
                    {
                        return Some(item);
                    }
                }

                self.lo_data_block = None;
                self.hi_data_block = None;
                return None;
            };
            let handle = fail_iter!(handle);

            let block = match self.cache.get_block(self.table_id, handle.offset()) {
                Some(block) => block,
                None => {
                    fail_iter!(load_block(
                        self.table_id,
                        &self.path,
                        &self.file_accessor,
                        &self.cache,
                        &BlockHandle::new(handle.offset(), handle.size()),
                        BlockType::Data,
                        self.compression,
                    ))
                }
            };
            let block = DataBlock::new(block);

            /*+*/let ghost bi = block.idx;/*-*/
            let mut reader = create_data_block_reader(block);
            /*+*/proof { lemma_cuts_mono(c, bi, bi + 1); lemma_cuts_mono(c, 0, bi); }/*-*/

            if let Some(bound) = &self.range.0 {
                reader.seek_lower_bound(bound, SeqNo::MAX);
            }
            if let Some(bound) = &self.range.1 {
                reader.seek_upper_bound(bound, SeqNo::MAX);
            }

            /*+*/let ghost l1 = reader.l;/*-*/
            let item = reader.next();
            /*+*/proof { if item is Some { assert(in_range(c, range, l1)); } }/*-*/

            self.lo_offset = handle.offset();
            self.lo_data_block = Some(reader);

            if let Some(mut item) = item {
                item.key.seqno += self.global_seqno;

                return Some(Ok(item));
            }
        }
    }
//@ END
//@ FROM src/table/iter.rs :: impl DoubleEndedIterator for Iter :: fn next_back :: OBL C03.7, C12.11, C14.6
//@ SUBST `. map ( Ok )` ==> `.map(|x__| Ok(x__))`
//@ SUBST `| mut v | {` ==> `|v| { let mut v = v;`
//@ SUBST `Option < Self :: Item >` ==> `Option<Result<InternalValue, Error>>`
//@ SUBST `crate :: table :: block :: BlockType :: Data` ==> `BlockType::Data`
    /*+*/#[verifier::exec_allows_no_decreases_clause]/*-*/
    fn next_back(&mut self) -> /*+*/(r:/*-*/ Option<Result<InternalValue, Error>>/*+*/)
        requires old(self).inv()
        ensures final(self).inv(), final(self).range == old(self).range, final(self).global_seqno == old(self).global_seqno, final(self).cache == old(self).cache,
            final(self).legal(r)/*-*/
    {
        /*+*/let ghost g = self.global_seqno; let ghost c = self.cc(); let ghost range = self.rr();/*-*/
        if let Some(block) = &mut self.hi_data_block {
            /*+*/let ghost h0 = block.h;
            proof { if block.l < block.h { assert(in_range(c, range, h0 - 1)); } }/*-*/
            if let Some(item) = block
                .next_back()
                .map(|v/*+*/: InternalValue/*-*/| /*+*/-> (r: InternalValue) requires v.key.seqno + g <= u64::MAX ensures r == lifted(v, g)/*-*/ { let mut v = v;
                    v.key.seqno += self.global_seqno;
                    v
                })
                .map(|x__/*+*/: InternalValue/*-*/| /*+*/-> (r: Result<InternalValue, Error>) ensures r == Ok::<InternalValue, Error>(x__) {/*-*/ Ok(x__) /*+*/}/*-*/)
            {
                return Some(item);
            }
        }

        if !self.index_initialized {
            let mut ok = if let Some(bound) = &self.range.0 {
                let key = match bound {
                    TBound::Included(k) | TBound::Excluded(k) => k,
                };
                self.index_iter.seek_lower(key, u64::MAX)
            } else {
                true
            };

            if ok {
                if let Some(bound) = &self.range.1 {
                    let key = match bound {
                        TBound::Included(k) | TBound::Excluded(k) => k,
                    };
                    ok = self.index_iter.seek_upper(key, u64::MAX);
                }
            }

            self.index_initialized = true;

            if !ok {
                self.lo_data_block = None;
                self.hi_data_block = None;
                return None;
            }
        }

        loop
            /*+*/invariant self.inv(), g == self.global_seqno, c == self.cc(), range == self.rr(), self.cache == old(self).cache,/*-*/
        {
            let Some(handle) = self.index_iter.next_back() else {
                if let Some(block) = &mut self.lo_data_block {
                    /*+*/let ghost h0 = block.h;
                    proof { if block.l < block.h { assert(in_range(c, range, h0 - 1)); } assert(self.global_seqno == g); }/*-*/
                    if let Some(item) = block
                        .next_back()
                        .map(|v/*+*/: InternalValue/*-*/| /*+*/-> (r: InternalValue) requires v.key.seqno + g <= u64::MAX ensures r == lifted(v, g)/*-*/ { let mut v = v;
                            v.key.seqno += self.global_seqno;
                            v
                        })
                        .map(|x__/*+*/: InternalValue/*-*/| /*+*/-> (r: Result<InternalValue, Error>) ensures r == Ok::<InternalValue, Error>(x__) {/*-*/ Ok(x__) /*+*/}/*-*/)
                    {
                        return Some(item);
                    }
                }

                self.lo_data_block = None;
                self.hi_data_block = None;
                return None;
            };
            let handle = fail_iter!(handle);

            let block = match self.cache.get_block(self.table_id, handle.offset()) {
                Some(block) => block,
                None => {
                    fail_iter!(load_block(
                        self.table_id,
                        &self.path,
                        &self.file_accessor,
                        &self.cache,
                        &BlockHandle::new(handle.offset(), handle.size()),
                        BlockType::Data,
                        self.compression,
                    ))
                }
            };
            let block = DataBlock::new(block);

            /*+*/let ghost bi = block.idx;/*-*/
            let mut reader = create_data_block_reader(block);
            /*+*/proof { lemma_cuts_mono(c, bi, bi + 1); lemma_cuts_mono(c, 0, bi); }/*-*/

            if let Some(bound) = &self.range.1 {
                reader.seek_upper_bound(bound, SeqNo::MAX);
            }
            if let Some(bound) = &self.range.0 {
                reader.seek_lower_bound(bound, SeqNo::MAX);
            }

            /*+*/let ghost h1 = reader.h;/*-*/
            let item = reader.next_back();
            /*+*/proof { if item is Some { assert(in_range(c, range, h1 - 1)); } }/*-*/

            self.hi_offset = handle.offset();
            self.hi_data_block = Some(reader);

            if let Some(mut item) = item {
                item.key.seqno += self.global_seqno;

                return Some(Ok(item));
            }
        }
    }
//@ END
}

}
fn main() {}
