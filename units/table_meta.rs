//@ UNIT table_meta
// Table metadata (src/table/meta.rs `ParsedMeta::load_with_handle`): every field of the parsed metadata is decoded from the property
// of the meta block that carries its name - id, item / tombstone / weak-tombstone counts, block counts, file size, creation time,
// key range (key#min, key#max), seqno range (seqno#min, seqno#max), compression - after the block was loaded with its checksum
// verified and its type checked; and `Writer::finish` stores each of these properties under exactly that name with the writer's own
// value (lemma_meta_roundtrip: what is written is what is parsed).  Obligations C18.5, C07.14, C04.13
use vstd::prelude::*;

//@ FROM src/table/meta.rs :: - :: macro_rules read_u8
//@ SUBST `. unwrap_or_else ( || panic ! ( "meta property {:?} should exist" , $ name ) )` ==> `.expect_rt()`
//@ SUBST `let mut bytes = & bytes . value [ .. ] ; bytes . read_u8 ( ) ?` ==> `read_u8_of(&bytes.value)?`
macro_rules! read_u8 {
    ($block:expr, $name:expr) => {{
        let bytes = $block
            .point_read($name, SeqNo::MAX)
            .expect_rt();

        read_u8_of(&bytes.value)?
    }};
}
//@ END
//@ FROM src/table/meta.rs :: - :: macro_rules read_u64
//@ SUBST `. unwrap_or_else ( || panic ! ( "meta property {:?} should exist" , $ name ) )` ==> `.expect_rt()`
//@ SUBST `let mut bytes = & bytes . value [ .. ] ; bytes . read_u64 :: < LittleEndian > ( ) ?` ==> `read_u64_le_of(&bytes.value)?`
macro_rules! read_u64 {
    ($block:expr, $name:expr) => {{
        let bytes = $block
            .point_read($name, SeqNo::MAX)
            .expect_rt();

        read_u64_le_of(&bytes.value)?
    }};
}
//@ END

verus! {
global size_of usize == 8;
type SeqNo = u64; type TableId = u64;

// ---------------- prelude (TRUSTED) ----------------
enum Error { Io, InvalidTag(u8) }
#[verifier::external_body] pub struct Slice { p: u8 }
impl View for Slice { type V = Seq<u8>; uninterp spec fn view(&self) -> Seq<u8>; }
type UserKey = Slice;
pub uninterp spec fn un_le64(b: Seq<u8>) -> u64;
pub uninterp spec fn un_le128(b: Seq<u8>) -> u128;
/// `let mut bytes = &slice[..]; bytes.read_uN::<LittleEndian>()` / `read_u8()`: decodes the leading bytes (Err when too short)
#[verifier::external_body] fn read_u8_of(s: &Slice) -> (r: Result<u8, Error>) ensures r is Ok ==> s@.len() >= 1 && r->Ok_0 == s@[0] { unimplemented!() }
/// `let mut bytes = &slice[..]; bytes.read_uN::<LittleEndian>()` (byteorder on an in-memory reader): the first N bytes, little endian.
/// One read per reader (the read consumes it); values of different widths are unrelated uninterpreted decodings
pub uninterp spec fn un_le32(b: Seq<u8>) -> u32;
pub uninterp spec fn un_le16(b: Seq<u8>) -> u16;
struct SliceRd<'a> { s: &'a Slice }
fn slice_rd<'a>(s: &'a Slice) -> (r: SliceRd<'a>) ensures r.s == s { SliceRd { s } }
impl<'a> SliceRd<'a> {
    #[verifier::external_body] fn rd_u64_le(self) -> (r: Result<u64, Error>) ensures r is Ok ==> self.s@.len() >= 8 && r->Ok_0 == un_le64(self.s@.subrange(0, 8)) { unimplemented!() }
    #[verifier::external_body] fn rd_u32_le(self) -> (r: Result<u32, Error>) ensures r is Ok ==> self.s@.len() >= 4 && r->Ok_0 == un_le32(self.s@.subrange(0, 4)) { unimplemented!() }
    #[verifier::external_body] fn rd_u16_le(self) -> (r: Result<u16, Error>) ensures r is Ok ==> self.s@.len() >= 2 && r->Ok_0 == un_le16(self.s@.subrange(0, 2)) { unimplemented!() }
}
#[verifier::external_body] fn read_u64_le_of(s: &Slice) -> (r: Result<u64, Error>) ensures r is Ok ==> s@.len() >= 8 && r->Ok_0 == un_le64(s@.subrange(0, 8)) { unimplemented!() }
#[verifier::external_body] fn read_u128_le_of(s: &Slice) -> (r: Result<u128, Error>) ensures r is Ok ==> s@.len() >= 16 && r->Ok_0 == un_le128(s@.subrange(0, 16)) { unimplemented!() }
/// `assert_eq!(expected, &*value, ..)`: execution continues only if the value is exactly that one byte
#[verifier::external_body] fn check_is_byte(s: &Slice, b: u8) ensures s@ == seq![b] { unimplemented!() }
#[verifier::external_body] fn rt_check(c: bool) ensures c { assert!(c); }
/// `opt.expect(msg)` / `opt.unwrap_or_else(|| panic!(..))`: execution continues only with Some
trait ExpectRt<T> { fn expect_rt(self) -> T; }
impl<T> ExpectRt<T> for Option<T> { #[verifier::external_body] fn expect_rt(self) -> (r: T) ensures self == Some(r) { self.expect("") } }

/// the name of a meta property (a byte-string literal in the source; rule R12: each literal is one constant)
#[derive(Copy, Clone, PartialEq, Eq, Structural)] pub struct Name(pub u8);
pub const N_TABLE_VERSION: Name = Name(0);
pub const N_FILTER_HASH_TYPE: Name = Name(1);
pub const N_CHECKSUM_TYPE: Name = Name(2);
pub const N_RESTART_INTERVAL_INDEX: Name = Name(3);
pub const N_TABLE_ID: Name = Name(4);
pub const N_ITEM_COUNT: Name = Name(5);
pub const N_TOMBSTONE_COUNT: Name = Name(6);
pub const N_BLOCK_COUNT_DATA: Name = Name(7);
pub const N_BLOCK_COUNT_INDEX: Name = Name(8);
pub const N_BLOCK_COUNT_FILTER: Name = Name(9);
pub const N_FILE_SIZE: Name = Name(10);
pub const N_WEAK_TOMBSTONE_COUNT: Name = Name(11);
pub const N_WEAK_TOMBSTONE_RECLAIMABLE: Name = Name(12);
pub const N_CREATED_AT: Name = Name(13);
pub const N_KEY_MIN: Name = Name(14);
pub const N_KEY_MAX: Name = Name(15);
pub const N_SEQNO_MIN: Name = Name(16);
pub const N_SEQNO_MAX: Name = Name(17);
pub const N_COMPRESSION_DATA: Name = Name(18);
pub const N_COMPRESSION_INDEX: Name = Name(19);
pub const N_CRATE_VERSION: Name = Name(20);
pub const N_DATA_BLOCK_HASH_RATIO: Name = Name(21);
pub const N_INDEX_KEYS_HAVE_SEQNO: Name = Name(22);
pub const N_INITIAL_LEVEL: Name = Name(23);
pub const N_KEY_COUNT: Name = Name(24);
pub const N_PREFIX_TRUNC_DATA: Name = Name(25);
pub const N_PREFIX_TRUNC_INDEX: Name = Name(26);
pub const N_RESTART_INTERVAL_DATA: Name = Name(27);
pub const N_USER_DATA_SIZE: Name = Name(28);

#[derive(Copy, Clone, PartialEq, Eq, Structural)] enum BlockType { Data, Index, Filter, Meta }
impl vstd::std_specs::convert::FromSpecImpl<BlockType> for u8 { open spec fn obeys_from_spec() -> bool { false } uninterp spec fn from_spec(v: BlockType) -> u8; }
impl From<BlockType> for u8 { #[verifier::external_body] fn from(v: BlockType) -> (r: u8) { unimplemented!() } }
#[derive(Copy, Clone, PartialEq, Eq, Structural)] enum CompressionType { None }
/// what CompressionType::decode_from makes of a property value (src/compression.rs)
uninterp spec fn compression_of(b: Seq<u8>) -> CompressionType;
impl CompressionType {
    /// `let mut bytes = &bytes.value[..]; CompressionType::decode_from(&mut bytes)`
    #[verifier::external_body] fn decode_value(s: &Slice) -> (r: Result<CompressionType, Error>) ensures r is Ok ==> r->Ok_0 == compression_of(s@) { unimplemented!() }
}
#[derive(Copy, Clone, PartialEq, Eq, Structural)] enum ChecksumType { Xxh3 }
struct U8OfChecksumType {}
impl U8OfChecksumType { #[verifier::external_body] fn from(c: ChecksumType) -> (r: u8) ensures r == 0 { unimplemented!() } }
struct Header { block_type: BlockType }
/// the meta block: a data block whose entries are (property name, value); props = what it stores
struct Block { header: Header, ghost props: Map<u8, Seq<u8>> }
#[derive(Copy, Clone)] struct BlockHandle { p: u64 }
#[verifier::external_body] struct File { p: u8 }
/// the meta block of the table file, as stored
uninterp spec fn stored_meta(file: &File, handle: BlockHandle) -> Block;
impl Block {
    /// Block::from_file (unit block_io, C10.1 / C10.2): Ok only with the stored block, checksums verified
    #[verifier::external_body]
    fn from_file(file: &File, handle: BlockHandle, compression: CompressionType) -> (r: Result<Block, Error>) ensures r is Ok ==> r->Ok_0 == stored_meta(file, handle) { unimplemented!() }
}
struct InternalKey { user_key: UserKey }
struct InternalValue { key: InternalKey, value: Slice }
struct DataBlock { inner: Block }
impl DataBlock {
    fn new(inner: Block) -> (r: Self) ensures r.inner == inner { DataBlock { inner } }
    /// DataBlock::point_read(name, SeqNo::MAX) (unit data_block_read, C12.15): the entry stored under that name, if any
    #[verifier::external_body]
    fn point_read(&self, name: Name, seqno: SeqNo) -> (r: Option<InternalValue>)
        ensures (r is Some) == self.inner.props.contains_key(name.0), r is Some ==> r->Some_0.value@ == self.inner.props[name.0]
    { unimplemented!() }
}
#[derive(Copy, Clone, PartialEq, Eq, Structural)] struct Timestamp(u128);
impl Timestamp { fn from_u128(v: u128) -> (r: Self) ensures r.0 == v { Timestamp(v) } }
struct KeyRange(UserKey, UserKey);
impl KeyRange { fn new(range: (UserKey, UserKey)) -> (r: Self) ensures r.0@ == range.0@, r.1@ == range.1@ { KeyRange(range.0, range.1) } }

//@ FROM src/table/meta.rs :: - :: struct ParsedMeta
struct ParsedMeta {
    id: TableId,
    created_at: Timestamp,
    data_block_count: u64,
    index_block_count: u64,
    key_range: KeyRange,
    seqnos: (SeqNo, SeqNo),
    file_size: u64,
    item_count: u64,
    tombstone_count: u64,
    weak_tombstone_count: u64,
    weak_tombstone_reclaimable: u64,

    data_block_compression: CompressionType,
    index_block_compression: CompressionType,
}
//@ END
spec fn p64(b: Block, n: Name) -> u64 { un_le64(b.props[n.0].subrange(0, 8)) }

impl ParsedMeta {
//@ FROM src/table/meta.rs :: impl ParsedMeta :: fn load_with_handle :: OBL C18.5, C07.14, C04.13
//@ SUBST `b"table_version"` ==> `N_TABLE_VERSION`
//@ SUBST `b"filter_hash_type"` ==> `N_FILTER_HASH_TYPE`
//@ SUBST `b"checksum_type"` ==> `N_CHECKSUM_TYPE`
//@ SUBST `b"restart_interval#index"` ==> `N_RESTART_INTERVAL_INDEX`
//@ SUBST `b"table_id"` ==> `N_TABLE_ID`
//@ SUBST `b"item_count"` ==> `N_ITEM_COUNT`
//@ SUBST `b"tombstone_count"` ==> `N_TOMBSTONE_COUNT`
//@ SUBST `b"block_count#data"` ==> `N_BLOCK_COUNT_DATA`
//@ SUBST `b"block_count#index"` ==> `N_BLOCK_COUNT_INDEX`
//@ SUBST `b"block_count#filter"` ==> `N_BLOCK_COUNT_FILTER`
//@ SUBST `b"file_size"` ==> `N_FILE_SIZE`
//@ SUBST `b"weak_tombstone_count"` ==> `N_WEAK_TOMBSTONE_COUNT`
//@ SUBST `b"weak_tombstone_reclaimable"` ==> `N_WEAK_TOMBSTONE_RECLAIMABLE`
//@ SUBST `b"created_at"` ==> `N_CREATED_AT`
//@ SUBST `b"key#min"` ==> `N_KEY_MIN`
//@ SUBST `b"key#max"` ==> `N_KEY_MAX`
//@ SUBST `b"seqno#min"` ==> `N_SEQNO_MIN`
//@ SUBST `b"seqno#max"` ==> `N_SEQNO_MAX`
//@ SUBST `b"compression#data"` ==> `N_COMPRESSION_DATA`
//@ SUBST `b"compression#index"` ==> `N_COMPRESSION_INDEX`
//@ SUBST `. expect ( $1 )` ==> `.expect_rt()`
//@ SUBST `crate :: Result < Self >` ==> `Result<Self, Error>`
//@ SUBST `crate :: Error :: InvalidTag ( ( "BlockType" , block . header . block_type . into ( ) , ) )` ==> `Error::InvalidTag(block.header.block_type.into())`
//@ SUBST `assert_eq ! ( [ 3u8 ] , & * table_version , $1 ) ;` ==> `check_is_byte(&table_version, 3u8);`
//@ SUBST `assert_eq ! ( & [ u8 :: from ( ChecksumType :: Xxh3 ) ] , & * hash_type , $1 ) ;` ==> `check_is_byte(&hash_type, U8OfChecksumType::from(ChecksumType::Xxh3));`
//@ SUBST `assert_eq ! ( read_u8 ! ( block , N_RESTART_INTERVAL_INDEX ) , 1 , $1 ) ;` ==> `rt_check(read_u8!(block, N_RESTART_INTERVAL_INDEX) == 1);`
//@ SUBST `let mut bytes = & bytes . value [ .. ] ; bytes . read_u128 :: < LittleEndian > ( ) ? . into ( )` ==> `Timestamp::from_u128(read_u128_le_of(&bytes.value)?)`
//@ SUBST `let mut bytes = & bytes [ .. ] ;` ==> `let bytes = slice_rd(&bytes);`
//@ SUBST `bytes . read_u64 :: < LittleEndian > ( )` ==> `bytes.rd_u64_le()`
//@ SUBST `bytes . read_u32 :: < LittleEndian > ( )` ==> `bytes.rd_u32_le()`
//@ SUBST `bytes . read_u16 :: < LittleEndian > ( )` ==> `bytes.rd_u16_le()`
//@ SUBST `let mut bytes = & bytes . value [ .. ] ; CompressionType :: decode_from ( & mut bytes ) ?` ==> `CompressionType::decode_value(&bytes.value)?`
    fn load_with_handle(file: &File, handle: &BlockHandle) -> /*+*/(r:/*-*/ Result<Self, Error>/*+*/)
        ensures r is Ok ==> ({
            let b = stored_meta(file, *handle); let m = r->Ok_0;
            // the block is a meta block, and every field comes from the property that carries its name
            &&& b.header.block_type == BlockType::Meta
            &&& m.id == p64(b, N_TABLE_ID) && m.item_count == p64(b, N_ITEM_COUNT) && m.tombstone_count == p64(b, N_TOMBSTONE_COUNT)
            &&& m.data_block_count == p64(b, N_BLOCK_COUNT_DATA) && m.index_block_count == p64(b, N_BLOCK_COUNT_INDEX) && m.file_size == p64(b, N_FILE_SIZE)
            &&& m.weak_tombstone_count == p64(b, N_WEAK_TOMBSTONE_COUNT) && m.weak_tombstone_reclaimable == p64(b, N_WEAK_TOMBSTONE_RECLAIMABLE)
            &&& m.created_at.0 == un_le128(b.props[N_CREATED_AT.0].subrange(0, 16))
            &&& m.key_range.0@ == b.props[N_KEY_MIN.0] && m.key_range.1@ == b.props[N_KEY_MAX.0]
            &&& m.seqnos == (p64(b, N_SEQNO_MIN), p64(b, N_SEQNO_MAX))
            &&& m.data_block_compression == compression_of(b.props[N_COMPRESSION_DATA.0]) && m.index_block_compression == compression_of(b.props[N_COMPRESSION_INDEX.0])
            // format guards
            &&& b.props[N_TABLE_VERSION.0] == seq![3u8] && b.props[N_RESTART_INTERVAL_INDEX.0][0] == 1
        }),/*-*/
    {
        let block = Block::from_file(file, *handle, CompressionType::None)?;

        if block.header.block_type != BlockType::Meta {
            return Err(Error::InvalidTag(block.header.block_type.into()));
        }

        let block = DataBlock::new(block);

        {
            let table_version = block
                .point_read(N_TABLE_VERSION, SeqNo::MAX)
                .expect_rt()
                .value;

            check_is_byte(&table_version, 3u8);
        }

        {
            let hash_type = block
                .point_read(N_FILTER_HASH_TYPE, SeqNo::MAX)
                .expect_rt()
                .value;

            check_is_byte(&hash_type, U8OfChecksumType::from(ChecksumType::Xxh3));
        }

        {
            let hash_type = block
                .point_read(N_CHECKSUM_TYPE, SeqNo::MAX)
                .expect_rt()
                .value;

            check_is_byte(&hash_type, U8OfChecksumType::from(ChecksumType::Xxh3));
        }

        rt_check(read_u8!(block, N_RESTART_INTERVAL_INDEX) == 1);

        let id = read_u64!(block, N_TABLE_ID);
        let item_count = read_u64!(block, N_ITEM_COUNT);
        let tombstone_count = read_u64!(block, N_TOMBSTONE_COUNT);
        let data_block_count = read_u64!(block, N_BLOCK_COUNT_DATA);
        let index_block_count = read_u64!(block, N_BLOCK_COUNT_INDEX);
        let _filter_block_count = read_u64!(block, N_BLOCK_COUNT_FILTER);
        let file_size = read_u64!(block, N_FILE_SIZE);
        let weak_tombstone_count = read_u64!(block, N_WEAK_TOMBSTONE_COUNT);
        let weak_tombstone_reclaimable = read_u64!(block, N_WEAK_TOMBSTONE_RECLAIMABLE);

        let created_at = {
            let bytes = block
                .point_read(N_CREATED_AT, SeqNo::MAX)
                .expect_rt();

            Timestamp::from_u128(read_u128_le_of(&bytes.value)?)
        };

        let key_range = KeyRange::new((
            block
                .point_read(N_KEY_MIN, SeqNo::MAX)
                .expect_rt()
                .value,
            block
                .point_read(N_KEY_MAX, SeqNo::MAX)
                .expect_rt()
                .value,
        ));

        let seqnos = {
            let min = {
                let bytes = block
                    .point_read(N_SEQNO_MIN, SeqNo::MAX)
                    .expect_rt()
                    .value;
                let bytes = slice_rd(&bytes);
                bytes.rd_u64_le()?
            };

            let max = {
                let bytes = block
                    .point_read(N_SEQNO_MAX, SeqNo::MAX)
                    .expect_rt()
                    .value;
                let bytes = slice_rd(&bytes);
                bytes.rd_u64_le()?
            };

            (min, max)
        };

        let data_block_compression = {
            let bytes = block
                .point_read(N_COMPRESSION_DATA, SeqNo::MAX)
                .expect_rt();

            CompressionType::decode_value(&bytes.value)?
        };

        let index_block_compression = {
            let bytes = block
                .point_read(N_COMPRESSION_INDEX, SeqNo::MAX)
                .expect_rt();

            CompressionType::decode_value(&bytes.value)?
        };

        Ok(Self {
            id,
            created_at,
            data_block_count,
            index_block_count,
            key_range,
            seqnos,
            file_size,
            item_count,
            tombstone_count,
            weak_tombstone_count,
            weak_tombstone_reclaimable,
            data_block_compression,
            index_block_compression,
        })
    }
//@ END
}

// ---------------- writer side: the properties Writer::finish stores ----------------
pub uninterp spec fn le64(x: u64) -> Seq<u8>;
pub uninterp spec fn le128(x: u128) -> Seq<u8>;
/// fixed-width little-endian coding is invertible (byteorder / to_le_bytes)
#[verifier::external_body]
pub broadcast proof fn axiom_le()
    ensures forall|x: u64| #![trigger le64(x)] le64(x).len() == 8 && un_le64(le64(x)) == x,
        forall|x: u128| #![trigger le128(x)] le128(x).len() == 16 && un_le128(le128(x)) == x,
{}
/// `x.to_le_bytes()`
trait LeBytes { spec fn le_spec(&self) -> Seq<u8>; fn le_bytes(&self) -> (r: Vec<u8>) ensures r@ == self.le_spec(); }
impl LeBytes for u64 { spec fn le_spec(&self) -> Seq<u8> { le64(*self) } #[verifier::external_body] fn le_bytes(&self) -> (r: Vec<u8>) { unimplemented!() } }
impl LeBytes for u128 { spec fn le_spec(&self) -> Seq<u8> { le128(*self) } #[verifier::external_body] fn le_bytes(&self) -> (r: Vec<u8>) { unimplemented!() } }
impl LeBytes for u8 { spec fn le_spec(&self) -> Seq<u8> { seq![*self] } #[verifier::external_body] fn le_bytes(&self) -> (r: Vec<u8>) { unimplemented!() } }
uninterp spec fn le_f32(x: f32) -> Seq<u8>;
impl LeBytes for f32 { spec fn le_spec(&self) -> Seq<u8> { le_f32(*self) } #[verifier::external_body] fn le_bytes(&self) -> (r: Vec<u8>) { unimplemented!() } }
/// what CompressionType::encode_into_vec writes; decode is its inverse (src/compression.rs)
uninterp spec fn compression_bytes(c: CompressionType) -> Seq<u8>;
#[verifier::external_body] proof fn axiom_compression(c: CompressionType) ensures compression_of(compression_bytes(c)) == c {}
impl CompressionType { #[verifier::external_body] fn encode_into_vec(&self) -> (r: Vec<u8>) ensures r@ == compression_bytes(*self) { unimplemented!() } }
/// `unix_timestamp().as_nanos()`
#[verifier::external_body] fn unix_timestamp_nanos() -> (r: u128) { unimplemented!() }
/// `env!("CARGO_PKG_VERSION").as_bytes()`
#[verifier::external_body] fn crate_version_bytes() -> (r: &'static [u8]) { unimplemented!() }
impl Slice { #[verifier::external_body] fn as_bytes(&self) -> (r: &[u8]) ensures r@ == self@ { unimplemented!() } }
/// a meta entry as the writer builds it
struct MetaItem { ghost name: Name, ghost value: Seq<u8> }
/// the nested helper `fn meta(key: &str, value: &[u8]) -> InternalValue` of Writer::finish (InternalValue::from_components(key, value, 0, Value))
#[verifier::external_body] fn meta(key: Name, value: &[u8]) -> (r: MetaItem) ensures r.name == key, r.value == value@ { unimplemented!() }
/// the fields of writer::meta::Metadata and Writer that the meta section reads (R8)
struct WMeta { data_block_count: usize, item_count: usize, key_count: usize, tombstone_count: usize, weak_tombstone_count: usize, weak_tombstone_reclaimable_count: usize,
    first_key: Option<UserKey>, last_key: Option<UserKey>, lowest_seqno: SeqNo, highest_seqno: SeqNo, file_pos: u64, uncompressed_size: u64 }
struct Writer { meta: WMeta, table_id: TableId, data_block_compression: CompressionType, index_block_compression: CompressionType, data_block_hash_ratio: f32,
    initial_level: u8, data_block_restart_interval: u8, index_block_restart_interval: u8 }
spec fn has(items: Seq<MetaItem>, name: Name, value: Seq<u8>) -> bool { exists|i: int| 0 <= i < items.len() && (#[trigger] items[i]).name == name && items[i].value == value }
/// every name occurs once
spec fn unique_names(items: Seq<MetaItem>) -> bool { forall|i: int, j: int| 0 <= i < j < items.len() ==> (#[trigger] items[i]).name != (#[trigger] items[j]).name }

//@ WRAPPER_BEGIN
impl Writer {
    /// wrapper (generated) around the statement of Writer::finish that builds the meta entries
    fn meta_items(&self, index_block_count: usize, filter_block_count: usize) -> (meta_items: [MetaItem; 29])
        requires self.meta.first_key is Some, self.meta.last_key is Some
        ensures
            // the properties the reader decodes carry exactly the writer's numbers, keys and codecs under the names the reader asks for
            has(meta_items@, N_TABLE_ID, le64(self.table_id)), has(meta_items@, N_ITEM_COUNT, le64(self.meta.item_count as u64)),
            has(meta_items@, N_TOMBSTONE_COUNT, le64(self.meta.tombstone_count as u64)), has(meta_items@, N_WEAK_TOMBSTONE_COUNT, le64(self.meta.weak_tombstone_count as u64)),
            has(meta_items@, N_WEAK_TOMBSTONE_RECLAIMABLE, le64(self.meta.weak_tombstone_reclaimable_count as u64)),
            has(meta_items@, N_BLOCK_COUNT_DATA, le64(self.meta.data_block_count as u64)), has(meta_items@, N_BLOCK_COUNT_INDEX, le64(index_block_count as u64)),
            has(meta_items@, N_BLOCK_COUNT_FILTER, le64(filter_block_count as u64)), has(meta_items@, N_FILE_SIZE, le64(self.meta.file_pos)),
            has(meta_items@, N_KEY_MIN, self.meta.first_key->Some_0@), has(meta_items@, N_KEY_MAX, self.meta.last_key->Some_0@),
            has(meta_items@, N_SEQNO_MIN, le64(self.meta.lowest_seqno)), has(meta_items@, N_SEQNO_MAX, le64(self.meta.highest_seqno)),
            has(meta_items@, N_COMPRESSION_DATA, compression_bytes(self.data_block_compression)), has(meta_items@, N_COMPRESSION_INDEX, compression_bytes(self.index_block_compression)),
            has(meta_items@, N_TABLE_VERSION, seq![3u8]), has(meta_items@, N_RESTART_INTERVAL_INDEX, seq![self.index_block_restart_interval]),
            has(meta_items@, N_CHECKSUM_TYPE, seq![0u8]), has(meta_items@, N_FILTER_HASH_TYPE, seq![0u8]),
            exists|t: u128| has(meta_items@, N_CREATED_AT, #[trigger] le128(t)),
            unique_names(meta_items@),
    {
//@ FROM src/table/writer/mod.rs :: impl Writer :: fn finish :: BLOCK 1 `start ( "meta" ) ? ; {` :: STMTS `let meta_items =` .. `let meta_items =` :: OBL C18.5, C07.14
//@ SUBST `"table_version"` ==> `N_TABLE_VERSION`
//@ SUBST `"filter_hash_type"` ==> `N_FILTER_HASH_TYPE`
//@ SUBST `"checksum_type"` ==> `N_CHECKSUM_TYPE`
//@ SUBST `"restart_interval#index"` ==> `N_RESTART_INTERVAL_INDEX`
//@ SUBST `"table_id"` ==> `N_TABLE_ID`
//@ SUBST `"item_count"` ==> `N_ITEM_COUNT`
//@ SUBST `"tombstone_count"` ==> `N_TOMBSTONE_COUNT`
//@ SUBST `"block_count#data"` ==> `N_BLOCK_COUNT_DATA`
//@ SUBST `"block_count#index"` ==> `N_BLOCK_COUNT_INDEX`
//@ SUBST `"block_count#filter"` ==> `N_BLOCK_COUNT_FILTER`
//@ SUBST `"file_size"` ==> `N_FILE_SIZE`
//@ SUBST `"weak_tombstone_count"` ==> `N_WEAK_TOMBSTONE_COUNT`
//@ SUBST `"weak_tombstone_reclaimable"` ==> `N_WEAK_TOMBSTONE_RECLAIMABLE`
//@ SUBST `"created_at"` ==> `N_CREATED_AT`
//@ SUBST `"key#min"` ==> `N_KEY_MIN`
//@ SUBST `"key#max"` ==> `N_KEY_MAX`
//@ SUBST `"seqno#min"` ==> `N_SEQNO_MIN`
//@ SUBST `"seqno#max"` ==> `N_SEQNO_MAX`
//@ SUBST `"compression#data"` ==> `N_COMPRESSION_DATA`
//@ SUBST `"compression#index"` ==> `N_COMPRESSION_INDEX`
//@ SUBST `"crate_version"` ==> `N_CRATE_VERSION`
//@ SUBST `"data_block_hash_ratio"` ==> `N_DATA_BLOCK_HASH_RATIO`
//@ SUBST `"index_keys_have_seqno"` ==> `N_INDEX_KEYS_HAVE_SEQNO`
//@ SUBST `"initial_level"` ==> `N_INITIAL_LEVEL`
//@ SUBST `"key_count"` ==> `N_KEY_COUNT`
//@ SUBST `"prefix_truncation#data"` ==> `N_PREFIX_TRUNC_DATA`
//@ SUBST `"prefix_truncation#index"` ==> `N_PREFIX_TRUNC_INDEX`
//@ SUBST `"restart_interval#data"` ==> `N_RESTART_INTERVAL_DATA`
//@ SUBST `"user_data_size"` ==> `N_USER_DATA_SIZE`
//@ SUBST `. to_le_bytes ( )` ==> `.le_bytes()`
//@ SUBST `u8 :: from ( ChecksumType :: Xxh3 )` ==> `U8OfChecksumType::from(ChecksumType::Xxh3)`
//@ SUBST `env ! ( N_CRATE_VERSION_ENV ) . as_bytes ( )` ==> `crate_version_bytes()`
//@ SUBST `env ! ( "CARGO_PKG_VERSION" ) . as_bytes ( )` ==> `crate_version_bytes()`
//@ SUBST `unix_timestamp ( ) . as_nanos ( )` ==> `unix_timestamp_nanos()`
//@ SUBST `. as_ref ( ) . expect ( "should exist" )` ==> `.as_ref().expect_rt().as_bytes()`
        let meta_items = [
            meta(
                N_BLOCK_COUNT_DATA,
                &(self.meta.data_block_count as u64).le_bytes(),
            ),
            meta(
                N_BLOCK_COUNT_FILTER,
                &(filter_block_count as u64).le_bytes(),
            ),
            meta(
                N_BLOCK_COUNT_INDEX,
                &(index_block_count as u64).le_bytes(),
            ),
            meta(N_CHECKSUM_TYPE, &[U8OfChecksumType::from(ChecksumType::Xxh3)]),
            meta(
                N_COMPRESSION_DATA,
                &self.data_block_compression.encode_into_vec(),
            ),
            meta(
                N_COMPRESSION_INDEX,
                &self.index_block_compression.encode_into_vec(),
            ),
            meta(N_CRATE_VERSION, crate_version_bytes()),
            meta(N_CREATED_AT, &unix_timestamp_nanos().le_bytes()),
            meta(
                N_DATA_BLOCK_HASH_RATIO,
                &self.data_block_hash_ratio.le_bytes(),
            ),
            meta(N_FILE_SIZE, &self.meta.file_pos.le_bytes()),
            meta(N_FILTER_HASH_TYPE, &[U8OfChecksumType::from(ChecksumType::Xxh3)]),
            meta(N_INDEX_KEYS_HAVE_SEQNO, &[0x1]),
            meta(N_INITIAL_LEVEL, &self.initial_level.le_bytes()),
            meta(N_ITEM_COUNT, &(self.meta.item_count as u64).le_bytes()),
            meta(
                N_KEY_MAX,
                // NOTE: At the beginning we check that we have written at least 1 item, so last_key must exist
                self.meta.last_key.as_ref().expect_rt().as_bytes(),
            ),
            meta(
                N_KEY_MIN,
                // NOTE: At the beginning we check that we have written at least 1 item, so first_key must exist
                self.meta.first_key.as_ref().expect_rt().as_bytes(),
            ),
            meta(N_KEY_COUNT, &(self.meta.key_count as u64).le_bytes()),
            meta(N_PREFIX_TRUNC_DATA, &[1]), // NOTE: currently prefix truncation can not be disabled
            meta(N_PREFIX_TRUNC_INDEX, &[1]), // NOTE: currently prefix truncation can not be disabled
            meta(
                N_RESTART_INTERVAL_DATA,
                &self.data_block_restart_interval.le_bytes(),
            ),
            meta(
                N_RESTART_INTERVAL_INDEX,
                &self.index_block_restart_interval.le_bytes(),
            ),
            meta(N_SEQNO_MAX, &self.meta.highest_seqno.le_bytes()),
            meta(N_SEQNO_MIN, &self.meta.lowest_seqno.le_bytes()),
            meta(N_TABLE_ID, &self.table_id.le_bytes()),
            meta(N_TABLE_VERSION, &[3u8]),
            meta(
                N_TOMBSTONE_COUNT,
                &(self.meta.tombstone_count as u64).le_bytes(),
            ),
            meta(N_USER_DATA_SIZE, &self.meta.uncompressed_size.le_bytes()),
            meta(
                N_WEAK_TOMBSTONE_COUNT,
                &(self.meta.weak_tombstone_count as u64).le_bytes(),
            ),
            meta(
                N_WEAK_TOMBSTONE_RECLAIMABLE,
                &(self.meta.weak_tombstone_reclaimable_count as u64).le_bytes(),
            ),
        ];
//@ END
        proof {
            assert(meta_items@[24].value =~= seq![3u8]); assert(meta_items@[3].value =~= seq![0u8]); assert(meta_items@[10].value =~= seq![0u8]);
            assert(meta_items@[20].value =~= seq![self.index_block_restart_interval]);
        }
        meta_items
    }
}
//@ WRAPPER_END

/// round trip: if the stored meta block holds what the writer built (each name once), the reader's numbers are the writer's
proof fn lemma_meta_roundtrip(items: Seq<MetaItem>, b: Block, name: Name, x: u64)
    requires unique_names(items), forall|i: int| 0 <= i < items.len() ==> b.props.contains_key((#[trigger] items[i]).name.0) && b.props[items[i].name.0] == items[i].value,
        has(items, name, le64(x))
    ensures p64(b, name) == x
{
    broadcast use axiom_le;
    let i = choose|i: int| 0 <= i < items.len() && (#[trigger] items[i]).name == name && items[i].value == le64(x);
    assert(b.props[name.0] == le64(x));
    assert(le64(x).subrange(0, 8) =~= le64(x));
}
}
fn main() {}
