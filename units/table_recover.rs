//@ UNIT table_recover
// Table::recover, Table::read_tli, Table::global_id, GlobalTableId::from (src/table/mod.rs, src/table/id.rs): the table
// handle built at open / after a flush carries the ids, seqno, checksum and handles it was given - the global id under which
// its blocks and descriptor are cached is (tree id, table id) in this order everywhere, the global seqno and checksum are the
// recorded ones, a filter TLI is always pinned, pinned blocks have the right type.  Obligations C11.7, C04.7, C14.7
use vstd::prelude::*;
use std::sync::Arc;
verus! {

global size_of usize == 8;

pub type TreeId = u64;
pub type TableId = u64;
type SeqNo = u64;

// ---------------- prelude (TRUSTED): files, parsed regions / metadata, blocks ----------------
enum Error { Io, InvalidTag((&'static str, u8)), Other }
#[verifier::external_body] struct PathBuf { p: u8 }
#[verifier::external_body] struct File { p: u8 }
#[verifier::external_body] struct Cache { p: u8 }
#[verifier::external_body] struct DescriptorTable { p: u8 }
#[verifier::external_body] struct SfaReader { p: u8 }
#[verifier::external_body] struct Toc { p: u8 }
#[verifier::external_body] struct AtomicBool { p: u8 }
impl AtomicBool { #[verifier::external_body] fn default() -> (r: Self) { unimplemented!() } }
#[verifier::external_body] struct OnceLock { p: u8 }
impl OnceLock { #[verifier::external_body] fn new() -> (r: Self) { unimplemented!() } }
#[derive(Copy, Clone, PartialEq, Eq, Structural)] struct Checksum(u128);
#[derive(Copy, Clone, PartialEq, Eq, Structural)] enum CompressionType { None }
#[derive(Copy, Clone, PartialEq, Eq, Structural)] enum BlockType { Data, Index, Filter, Meta }
impl vstd::std_specs::convert::FromSpecImpl<BlockType> for u8 {
    open spec fn obeys_from_spec() -> bool { false }
    uninterp spec fn from_spec(t: BlockType) -> u8;
}
impl From<BlockType> for u8 { #[verifier::external_body] fn from(t: BlockType) -> (r: u8) { unimplemented!() } }
#[derive(Copy, Clone, PartialEq, Eq, Structural)] struct BlockHandle { off: u64, size: u32 }
struct Header { block_type: BlockType }
/// a block read from the table file at a handle (checksums verified: unit block_io, C10.2)
struct Block { header: Header, ghost at: BlockHandle }
impl Block {
    #[verifier::external_body]
    fn from_file(file: &File, handle: BlockHandle, compression: CompressionType) -> (r: Result<Block, Error>) ensures r is Ok ==> r->Ok_0.at == handle { unimplemented!() }
}
struct IndexBlock { inner: Block }
impl IndexBlock { fn new(block: Block) -> (r: Self) ensures r.inner == block { IndexBlock { inner: block } } }
struct FilterBlock { inner: Block }
impl FilterBlock { fn new(block: Block) -> (r: Self) ensures r.inner == block { FilterBlock { inner: block } } }
struct FullBlockIndex { inner: IndexBlock }
impl FullBlockIndex { fn new(block: IndexBlock) -> (r: Self) ensures r.inner == block { FullBlockIndex { inner: block } } }
/// regions::ParsedRegions / meta::ParsedMeta as parsed from the table file (parsing not under contract)
struct ParsedRegions { tli: BlockHandle, index: Option<BlockHandle>, filter_tli: Option<BlockHandle>, filter: Option<BlockHandle>, metadata: BlockHandle }
struct ParsedMeta { id: TableId, index_block_compression: CompressionType }
impl SfaReader {
    #[verifier::external_body] fn from_reader(file: &mut File) -> (r: Result<SfaReader, Error>) { unimplemented!() }
    #[verifier::external_body] fn toc(&self) -> (r: &Toc) { unimplemented!() }
}
impl ParsedRegions { #[verifier::external_body] fn parse_from_toc(toc: &Toc) -> (r: Result<ParsedRegions, Error>) { unimplemented!() } }
impl ParsedMeta { #[verifier::external_body] fn load_with_handle(file: &File, handle: &BlockHandle) -> (r: Result<ParsedMeta, Error>) { unimplemented!() } }
impl File { #[verifier::external_body] fn open(path: &PathBuf) -> (r: Result<File, Error>) { unimplemented!() } }
/// std: Option<Result<T, E>>::transpose and Result::and_then
pub assume_specification<T, E> [std::option::Option::<std::result::Result<T, E>>::transpose] (o: std::option::Option<std::result::Result<T, E>>) -> (r: std::result::Result<std::option::Option<T>, E>)
    ensures match o { None => r == Ok::<Option<T>, E>(None), Some(Ok(v)) => r == Ok::<Option<T>, E>(Some(v)), Some(Err(e)) => r == Err::<Option<T>, E>(e) };
pub assume_specification<T, E, U, F> [std::result::Result::<T, E>::and_then] (x: std::result::Result<T, E>, f: F) -> (r: std::result::Result<U, E>)
    where F: std::ops::FnOnce(T,) -> std::result::Result<U, E> + std::marker::Destruct,
    requires x is Ok ==> call_requires(f, (x->Ok_0,)),
    ensures match x { Ok(v) => call_ensures(f, (v,), r), Err(e) => r == Err::<U, E>(e) };
/// `regions.filter.map(|h| { Block::from_file(&file, h, None).and_then(type check)?; Ok(FilterBlock::new(block)) }).transpose()?`
/// is kept as source text below; Option::map / transpose / and_then with these closures are std (vstd specs)

//@ FROM src/table/id.rs :: - :: struct GlobalTableId
/*+*/#[derive(Copy, Clone, PartialEq, Eq, Structural)]
pub/*-*/ struct GlobalTableId(/*+*/pub/*-*/ TreeId, /*+*/pub/*-*/ TableId);
//@ END
impl vstd::std_specs::convert::FromSpecImpl<(TreeId, TableId)> for GlobalTableId {
    open spec fn obeys_from_spec() -> bool { true }
    open spec fn from_spec(t: (TreeId, TableId)) -> GlobalTableId { GlobalTableId(t.0, t.1) }
}
impl From<(TreeId, TableId)> for GlobalTableId {
//@ FROM src/table/id.rs :: From < ( TreeId , TableId ) > for GlobalTableId :: fn from :: OBL C11.7
//@ SUBST `fn from ( ( tid , sid ) : ( TreeId , TableId ) ) -> Self {` ==> `fn from(t__: (TreeId, TableId)) -> Self { let (tid, sid) = t__;`
    fn from(t__: (TreeId, TableId)) -> /*+*/(r:/*-*/ Self/*+*/) ensures r == GlobalTableId(t__.0, t__.1)/*-*/ { let (tid, sid) = t__;
        Self(tid, sid)
    }
//@ END
}

//@ FROM src/file_accessor.rs :: - :: enum FileAccessor
enum FileAccessor {
    File(Arc<File>),

    DescriptorTable(Arc<DescriptorTable>),
}
//@ END
impl Clone for FileAccessor {
    /// `#[derive(Clone)]` of the source
    fn clone(&self) -> (r: Self) ensures r == *self { match self { FileAccessor::File(f) => FileAccessor::File(f.clone()), FileAccessor::DescriptorTable(d) => FileAccessor::DescriptorTable(d.clone()) } }
}

//@ FROM src/table/block_index/two_level.rs :: - :: struct TwoLevelBlockIndex
struct TwoLevelBlockIndex {
    top_level_index: IndexBlock,
    table_id: GlobalTableId,
    path: Arc<PathBuf>,
    file_accessor: FileAccessor,
    cache: Arc<Cache>,
    compression: CompressionType,
}
//@ END
//@ FROM src/table/block_index/volatile.rs :: - :: struct VolatileBlockIndex
struct VolatileBlockIndex {
    table_id: GlobalTableId,
    path: Arc<PathBuf>,
    file_accessor: FileAccessor,
    cache: Arc<Cache>,
    handle: BlockHandle,
    compression: CompressionType,
}
//@ END
//@ FROM src/table/block_index/mod.rs :: - :: enum BlockIndexImpl
enum BlockIndexImpl {
    Full(FullBlockIndex),
    VolatileFull(VolatileBlockIndex),
    TwoLevel(TwoLevelBlockIndex),
}
//@ END

//@ FROM src/table/inner.rs :: - :: struct Inner
//@ SUBST `OnceLock < u64 >` ==> `OnceLock`
struct Inner {
    path: Arc<PathBuf>,

    tree_id: TreeId,

    file_accessor: FileAccessor,

    metadata: ParsedMeta,

    regions: ParsedRegions,

    block_index: Arc<BlockIndexImpl>,

    cache: Arc<Cache>,

    pinned_filter_index: Option<IndexBlock>,

    pinned_filter_block: Option<FilterBlock>,

    is_deleted: AtomicBool,

    checksum: Checksum,

    global_seqno: SeqNo,

    cached_blob_bytes: OnceLock,
}
//@ END

//@ FROM src/table/mod.rs :: - :: struct Table
struct Table(Arc<Inner>);
//@ END

/// the global id every cache / descriptor-table access of this table must use
spec fn gid(tree_id: TreeId, table_id: TableId) -> GlobalTableId { GlobalTableId(tree_id, table_id) }
spec fn index_wired(bi: BlockIndexImpl, g: GlobalTableId, tli: BlockHandle) -> bool {
    match bi {
        BlockIndexImpl::Full(f) => f.inner.inner.at == tli && f.inner.inner.header.block_type == BlockType::Index,
        BlockIndexImpl::VolatileFull(v) => v.table_id == g && v.handle == tli,
        BlockIndexImpl::TwoLevel(t) => t.table_id == g && t.top_level_index.inner.at == tli && t.top_level_index.inner.header.block_type == BlockType::Index,
    }
}

//@ SUBST `crate :: Error` ==> `Error`
//@ SUBST `crate :: Result < Self >` ==> `Result<Self, Error>`
//@ SUBST `crate :: Result < IndexBlock >` ==> `Result<IndexBlock, Error>`
impl Table {
//@ FROM src/table/mod.rs :: impl Table :: fn read_tli :: OBL C11.7, C10.4
    fn read_tli(
        regions: &ParsedRegions,
        file: &File,
        compression: CompressionType,
    ) -> /*+*/(r:/*-*/ Result<IndexBlock, Error>/*+*/)
        ensures r is Ok ==> r->Ok_0.inner.at == regions.tli && r->Ok_0.inner.header.block_type == BlockType::Index/*-*/
    {
        let block = Block::from_file(file, regions.tli, compression)?;

        if block.header.block_type != BlockType::Index {
            return Err(Error::InvalidTag((
                "BlockType",
                block.header.block_type.into(),
            )));
        }

        Ok(IndexBlock::new(block))
    }
//@ END
//@ FROM src/table/mod.rs :: impl Table :: fn global_id :: OBL C11.7
    fn global_id(&self) -> /*+*/(r:/*-*/ GlobalTableId/*+*/) ensures r == gid(self.0.tree_id, self.0.metadata.id)/*-*/ {
        (self/*+*/.0/*-*/.tree_id, self.id()).into()
    }
//@ END
//@ FROM src/table/mod.rs :: impl Table :: fn id :: OBL C11.7
    fn id(&self) -> /*+*/(r:/*-*/ TableId/*+*/) ensures r == self.0.metadata.id/*-*/ {
        self/*+*/.0/*-*/.metadata.id
    }
//@ END

//@ FROM src/table/mod.rs :: impl Table :: fn recover :: OBL C11.7, C04.7, C14.7
//@ SUBST `use meta :: ParsedMeta ;` ==> ``
//@ SUBST `use regions :: ParsedRegions ;` ==> ``
//@ SUBST `use std :: sync :: atomic :: AtomicBool ;` ==> ``
//@ SUBST `std :: fs :: File :: open` ==> `File::open`
//@ SUBST `sfa :: Reader :: from_reader` ==> `SfaReader::from_reader`
//@ SUBST `crate :: CompressionType :: None` ==> `CompressionType::None`
//@ SUBST `std :: sync :: OnceLock :: new ( )` ==> `OnceLock::new()`
    fn recover(
        file_path: PathBuf,
        checksum: Checksum,
        global_seqno: SeqNo,
        tree_id: TreeId,
        cache: Arc<Cache>,
        descriptor_table: Option<Arc<DescriptorTable>>,
        pin_filter: bool,
        pin_index: bool,
    ) -> /*+*/(r:/*-*/ Result<Self, Error>/*+*/)
        ensures r is Ok ==> ({ let t = r->Ok_0.0;
            t.tree_id == tree_id && t.checksum == checksum && t.global_seqno == global_seqno && t.cache == cache
            && index_wired(*t.block_index, gid(tree_id, t.metadata.id), t.regions.tli)
            && (match descriptor_table { Some(dt) => t.file_accessor == FileAccessor::DescriptorTable(dt), None => t.file_accessor is File })
            // a filter TLI is always pinned (Table::get relies on it: its `unimplemented!` arm is unreachable)
            && (t.regions.filter_tli is Some ==> t.pinned_filter_index is Some && t.pinned_filter_index->Some_0.inner.at == t.regions.filter_tli->Some_0)
            && (t.pinned_filter_block is Some ==> t.regions.filter is Some && t.pinned_filter_block->Some_0.inner.at == t.regions.filter->Some_0
                    && t.pinned_filter_block->Some_0.inner.header.block_type == BlockType::Filter) })/*-*/
    {
        let mut file = File::open(&file_path)?;
        let file_path = Arc::new(file_path);

        let trailer = SfaReader::from_reader(&mut file)?;
        let regions = ParsedRegions::parse_from_toc(trailer.toc())?;

        let metadata = ParsedMeta::load_with_handle(&file, &regions.metadata)?;

        let file = Arc::new(file);

        let file_accessor = if let Some(dt) = descriptor_table {
            FileAccessor::DescriptorTable(dt)
        } else {
            FileAccessor::File(file.clone())
        };

        let block_index = if regions.index.is_some() {
            let block = Self::read_tli(&regions, &file, metadata.index_block_compression)?;

            BlockIndexImpl::TwoLevel(TwoLevelBlockIndex {
                top_level_index: block,
                cache: cache.clone(),
                compression: metadata.index_block_compression,
                path: Arc::clone(&file_path),
                file_accessor: file_accessor.clone(),
                table_id: (tree_id, metadata.id).into(),
            })
        } else if pin_index {
            let block = Self::read_tli(&regions, &file, metadata.index_block_compression)?;
            BlockIndexImpl::Full(FullBlockIndex::new(block))
        } else {
            BlockIndexImpl::VolatileFull(VolatileBlockIndex {
                cache: cache.clone(),
                compression: metadata.index_block_compression,
                file_accessor: file_accessor.clone(),
                handle: regions.tli,
                path: Arc::clone(&file_path),
                table_id: (tree_id, metadata.id).into(),
            })
        };

        let pinned_filter_index = if let Some(filter_tli_handle) = regions.filter_tli {
            let block =
                Block::from_file(&file, filter_tli_handle, metadata.index_block_compression)?;
            Some(IndexBlock::new(block))
        } else {
            None
        };

        // TODO: FilterBlock newtype
        let pinned_filter_block = if pinned_filter_index.is_none() && pin_filter {
            regions
                .filter
                .map(|filter_handle/*+*/: BlockHandle/*-*/| /*+*/-> (fr: Result<FilterBlock, Error>)
                    ensures fr is Ok ==> fr->Ok_0.inner.at == filter_handle && fr->Ok_0.inner.header.block_type == BlockType::Filter/*-*/
                {
                    let block = Block::from_file(
                        &file,
                        filter_handle,
                        CompressionType::None, // NOTE: We never write a filter block with compression
                    )
                    .and_then(|block/*+*/: Block/*-*/| /*+*/-> (br: Result<Block, Error>) ensures br is Ok ==> br->Ok_0 == block && block.header.block_type == BlockType::Filter/*-*/ {
                        if block.header.block_type == BlockType::Filter {
                            Ok(block)
                        } else {
                            Err(Error::InvalidTag((
                                "BlockType",
                                block.header.block_type.into(),
                            )))
                        }
                    })?;

                    Ok::<_, Error>(FilterBlock::new(block))
                })
                .transpose()?
        } else {
            None
        };

        Ok(Self(Arc::new(Inner {
            path: file_path,
            tree_id,

            metadata,
            regions,

            cache,

            file_accessor,

            block_index: Arc::new(block_index),

            pinned_filter_index,

            pinned_filter_block,

            is_deleted: AtomicBool::default(),

            checksum,
            global_seqno,

            cached_blob_bytes: OnceLock::new(),
        })))
    }
//@ END
}

}
fn main() {}
