//@ UNIT table_rotate
// Table multi-writer (src/table/multi_writer.rs) `rotate` / `finish`: when the output of a flush or compaction is cut into several
// tables, the table being closed first receives ALL blob links registered since the last cut (and they are then cleared for the next
// table), is finished, and its (id, checksum) is appended to the results iff it holds data; writing continues in a new table whose
// id is freshly drawn from the tree's table id counter.  Obligations C07.13, C09.10
use vstd::prelude::*;
use vstd::std_specs::iter::*;
verus! {
global size_of usize == 8;
type TableId = u64; type BlobFileId = u64;

//@ INCLUDE prelude/seqiter.rs

// ---------------- prelude (TRUSTED) ----------------
#[verifier::external_body] struct Error { p: u8 }
#[verifier::external_body] struct PathBuf { p: u8 }
struct Path { ghost id: TableId }
impl PathBuf { #[verifier::external_body] fn join_id(&self, id: TableId) -> (r: Path) ensures r.id == id { unimplemented!() } }
#[derive(Copy, Clone, PartialEq, Eq, Structural)] struct Checksum { c: u128 }
#[verifier::external_body] struct SequenceNumberCounter { p: u8 }
/// `drawn(g, id)`: id was drawn from generator g by this very step
uninterp spec fn drawn(g: int, id: u64) -> bool;
impl SequenceNumberCounter {
    uninterp spec fn gid(&self) -> int;
    #[verifier::external_body] fn next(&self) -> (r: u64) ensures drawn(self.gid(), r) { unimplemented!() }
}
//@ FROM src/table/writer/mod.rs :: - :: struct LinkedFile
/*+*/#[derive(Copy, Clone, PartialEq, Eq, Structural)]/*-*/
struct LinkedFile {
    blob_file_id: BlobFileId,
    bytes: u64,
    on_disk_bytes: u64,
    len: usize,
}
//@ END
/// effect token (R15): the tables finished so far, each with the blob links written into its metadata
struct Fx { ghost finished: Seq<(TableId, Set<LinkedFile>)> }
/// table::writer::Writer: a single table being written
struct Writer { ghost id: TableId, ghost links: Set<LinkedFile>, ghost holds_data: bool, ghost sum: Checksum }
impl Writer {
    /// Writer::new(path, id, level)? followed by the `use_*` configuration chain (tuning; keeps id and content)
    #[verifier::external_body]
    fn new_configured(path: Path, table_id: TableId, initial_level: u8) -> (r: Result<Self, Error>)
        ensures r is Ok ==> r->Ok_0.id == table_id && r->Ok_0.links == Set::<LinkedFile>::empty() && !r->Ok_0.holds_data
    { unimplemented!() }
    #[verifier::external_body] fn use_partitioned_index(self) -> (r: Self) ensures r == self { unimplemented!() }
    #[verifier::external_body] fn use_partitioned_filter(self) -> (r: Self) ensures r == self { unimplemented!() }
    /// Writer::link_blob_file(id, len, bytes, on_disk_bytes)
    #[verifier::external_body]
    fn link_blob_file(&mut self, blob_file_id: BlobFileId, len: usize, bytes: u64, on_disk_bytes: u64)
        ensures final(self).id == old(self).id, final(self).holds_data == old(self).holds_data, final(self).sum == old(self).sum,
            final(self).links == old(self).links.insert(LinkedFile { blob_file_id, bytes, on_disk_bytes, len })
    { unimplemented!() }
    /// Writer::finish (unit writer_finish): Some((id, checksum)) iff the table holds data (an empty file is removed)
    #[verifier::external_body]
    fn finish(self, Tracked(fx): Tracked<&mut Fx>) -> (r: Result<Option<(TableId, Checksum)>, Error>)
        ensures r is Ok ==> (r->Ok_0 is Some) == self.holds_data, r is Ok && r->Ok_0 is Some ==> r->Ok_0->Some_0 == (self.id, self.sum),
            r is Ok ==> final(fx).finished == old(fx).finished.push((self.id, self.links)), r is Err ==> final(fx).finished == old(fx).finished
    { unimplemented!() }
}
/// HashMap<BlobFileId, LinkedFile>: the links registered since the last cut (register_blob: unit blob_links, C09.7)
struct LinkMap { ghost m: Set<LinkedFile> }
impl LinkMap {
    /// `.values()`: every link exactly once, in some order
    #[verifier::external_body]
    fn values(&self) -> (r: SeqIter<&LinkedFile>)
        ensures forall|l: LinkedFile| self.m.contains(l) <==> exists|i: int| 0 <= i < r.rest().len() && *(#[trigger] r.rest()[i]) == l
    { unimplemented!() }
    #[verifier::external_body] fn clear(&mut self) ensures final(self).m == Set::<LinkedFile>::empty() { unimplemented!() }
}
pub assume_specification<T> [core::mem::replace] (dest: &mut T, src: T) -> (r: T)
    ensures r == *old(dest), *final(dest) == src;

/// the fields of MultiWriter that rotate / finish touch (R8)
struct MultiWriter {
    base_path: PathBuf,
    use_partitioned_index: bool,
    use_partitioned_filter: bool,
    results: Vec<(TableId, Checksum)>,
    table_id_generator: SequenceNumberCounter,
    writer: Writer,
    linked_blobs: LinkMap,
    initial_level: u8,
}
//@ SUBST `crate :: Result < ( ) >` ==> `Result<(), Error>`
//@ SUBST `crate :: Result < Vec < ( TableId , Checksum ) >>` ==> `Result<Vec<(TableId, Checksum)>, Error>`
//@ SUBST `std :: mem :: replace` ==> `core::mem::replace`
impl MultiWriter {
//@ FROM src/table/multi_writer.rs :: impl MultiWriter :: fn rotate :: OBL C07.13, C09.10
//@ SUBST `. join ( new_table_id . to_string ( ) )` ==> `.join_id(new_table_id)`
//@ SUBST `let mut new_writer = Writer :: new ( path , new_table_id , self . initial_level ) ? $1 ;` ==> `let mut new_writer = Writer::new_configured(path, new_table_id, self.initial_level)?;` :: FORBID finish results linked_blobs replace link_blob_file
//@ SUBST `for linked in self . linked_blobs . values ( ) {` ==> `for linked in it__: self.linked_blobs.values() {`
//@ SUBST `old_writer . finish ( )` ==> `old_writer.finish(Tracked(fx))`
    fn rotate(&mut self/*+*/, Tracked(fx): Tracked<&mut Fx>/*-*/) -> /*+*/(r:/*-*/ Result<(), Error>/*+*/)
        ensures final(self).table_id_generator == old(self).table_id_generator,
            r is Ok ==> ({
                // the table being closed is finished with exactly its own links plus every link registered since the last cut
                &&& final(fx).finished == old(fx).finished.push((old(self).writer.id, old(self).writer.links.union(old(self).linked_blobs.m)))
                // the table being closed gets every link registered since the last cut, which are then cleared ...
                &&& final(self).linked_blobs.m == Set::<LinkedFile>::empty()
                // ... and its (id, checksum) joins the results iff it holds data; nothing already there is touched
                &&& final(self).results@ == (if old(self).writer.holds_data { old(self).results@.push((old(self).writer.id, old(self).writer.sum)) } else { old(self).results@ })
                // writing continues in a fresh table with a freshly drawn id
                &&& drawn(old(self).table_id_generator.gid(), final(self).writer.id) && final(self).writer.links == Set::<LinkedFile>::empty() && !final(self).writer.holds_data
            }),/*-*/
    {

        let new_table_id = self.table_id_generator.next();
        let path = self.base_path.join_id(new_table_id);

        let mut new_writer = Writer::new_configured(path, new_table_id, self.initial_level)?;

        if self.use_partitioned_index {
            new_writer = new_writer.use_partitioned_index();
        }
        if self.use_partitioned_filter {
            new_writer = new_writer.use_partitioned_filter();
        }

        let mut old_writer = core::mem::replace(&mut self.writer, new_writer);
        /*+*/let ghost l0 = old_writer.links; let ghost w0 = old_writer;/*-*/

        for linked in it__: self.linked_blobs.values()
            /*+*/invariant old_writer.id == w0.id, old_writer.holds_data == w0.holds_data, old_writer.sum == w0.sum,
                forall|l: LinkedFile| #[trigger] old_writer.links.contains(l) <==> (l0.contains(l) || exists|i: int| 0 <= i < it__.index@ && *(#[trigger] it__.seq()[i]) == l),/*-*/
        {
            old_writer.link_blob_file(
                linked.blob_file_id,
                linked.len,
                linked.bytes,
                linked.on_disk_bytes,
            );
            /*+*/proof { assert(*linked == *it__.seq()[it__.index@ as int]); }/*-*/
        }
        self.linked_blobs.clear();

        /*+*/proof { assert(old_writer.links =~= l0.union(old(self).linked_blobs.m)); }/*-*/
        if let Some((table_id, checksum)) = old_writer.finish(Tracked(fx))? {
            self.results.push((table_id, checksum));
        }

        Ok(())
    }
//@ END

//@ FROM src/table/multi_writer.rs :: impl MultiWriter :: fn finish :: OBL C07.13, C09.10
//@ SUBST `( mut self )` ==> `(self, Tracked(fx): Tracked<&mut Fx>)`
//@ SUBST `for linked in self . linked_blobs . values ( ) {` ==> `for linked in it__: self.linked_blobs.values() {`
//@ SUBST `self . writer . link_blob_file (` ==> `writer__.link_blob_file(`
//@ SUBST `self . writer . finish ( )` ==> `writer__.finish(Tracked(fx))`
//@ SUBST `self . results . push (` ==> `results__.push(`
//@ SUBST `Ok ( self . results )` ==> `Ok(results__)`
    fn finish(self, Tracked(fx): Tracked<&mut Fx>) -> /*+*/(r:/*-*/ Result<Vec<(TableId, Checksum)>, Error>/*+*/)
        ensures r is Ok ==> ({
            // the last table is finished with its own links plus the links still registered, and joins the results iff it holds data
            &&& final(fx).finished == old(fx).finished.push((self.writer.id, self.writer.links.union(self.linked_blobs.m)))
            &&& r->Ok_0@ == (if self.writer.holds_data { self.results@.push((self.writer.id, self.writer.sum)) } else { self.results@ })
        }),/*-*/
    {
        /*+*/let mut writer__ = self.writer; let mut results__ = self.results;
        let ghost l0 = writer__.links; let ghost w0 = writer__;/*-*/
        for linked in it__: self.linked_blobs.values()
            /*+*/invariant writer__.id == w0.id, writer__.holds_data == w0.holds_data, writer__.sum == w0.sum,
                forall|l: LinkedFile| #[trigger] writer__.links.contains(l) <==> (l0.contains(l) || exists|i: int| 0 <= i < it__.index@ && *(#[trigger] it__.seq()[i]) == l),/*-*/
        {
            writer__.link_blob_file(
                linked.blob_file_id,
                linked.len,
                linked.bytes,
                linked.on_disk_bytes,
            );
            /*+*/proof { assert(*linked == *it__.seq()[it__.index@ as int]); }/*-*/
        }
        /*+*/proof { assert(writer__.links =~= l0.union(self.linked_blobs.m)); }/*-*/

        if let Some((table_id, checksum)) = writer__.finish(Tracked(fx))? {
            results__.push((table_id, checksum));
        }

        Ok(results__)
    }
//@ END
}
}
fn main() {}
