//@ UNIT table_scanner
// Sequential table scanner (src/table/scanner.rs; what a compaction reads its input tables with): `Scanner::next` yields every
// entry of the first `block_count` blocks of the file, in order, each exactly once, with the table's global seqno added; a block
// that fails to load (checksum, I/O) or is not a data block surfaces as an error instead of being skipped; it ends exactly after
// the last entry of the last block.  Obligations C12.24, C14.10, C10.12
use vstd::prelude::*;

//@ FROM src/lib.rs :: - :: macro_rules fail_iter
//@ SUBST `e . into ( )` ==> `e`
macro_rules! fail_iter {
    ($e:expr) => {
        match $e {
            Ok(v) => v,
            Err(e) => return Some(Err(e)),
        }
    };
}
//@ END

verus! {
global size_of usize == 8;
type SeqNo = u64;

// ---------------- prelude (TRUSTED) ----------------
enum Error { Io, InvalidTag((u8, u8)) }
#[derive(Copy, Clone, PartialEq, Eq, Structural)] enum BlockType { Data, Index, Filter, Meta }
#[derive(Copy, Clone)] struct CompressionType { p: u8 }
impl vstd::std_specs::convert::FromSpecImpl<BlockType> for u8 { open spec fn obeys_from_spec() -> bool { false } uninterp spec fn from_spec(v: BlockType) -> u8; }
impl From<BlockType> for u8 { #[verifier::external_body] fn from(v: BlockType) -> (r: u8) { unimplemented!() } }
/// an entry (key bytes, value bytes and type are carried along untouched; only the seqno is looked at)
struct InternalKey { ghost user_key: int, seqno: SeqNo, ghost value_type: int }
struct InternalValue { key: InternalKey, ghost value: int }
struct Header { block_type: BlockType }
/// a loaded block: its type and (ghost) the entries its payload encodes
struct Block { header: Header, ghost items: Seq<InternalValue> }
/// BufReader<File> positioned at a block boundary: the blocks that follow in the file
struct FileReader { ghost blocks: Seq<Block>, ghost pos: int }
impl Block {
    /// Block::from_reader (unit block_io, C10.1): Ok only with the verified next block of the file
    #[verifier::external_body]
    fn from_reader(reader: &mut FileReader, compression: CompressionType) -> (r: Result<Block, Error>)
        ensures final(reader).blocks == old(reader).blocks,
            r is Ok ==> 0 <= old(reader).pos < old(reader).blocks.len() && r->Ok_0 == old(reader).blocks[old(reader).pos] && final(reader).pos == old(reader).pos + 1,
    { unimplemented!() }
}
#[verifier::external_body] struct Path { p: u8 }
/// the blocks stored in the table file at `path` (its data section comes first)
uninterp spec fn file_blocks(path: &Path) -> Seq<Block>;
/// `BufReader::with_capacity(.., File::open(path)?)`
#[verifier::external_body]
fn open_table_file(path: &Path) -> (r: Result<FileReader, Error>) ensures r is Ok ==> r->Ok_0.blocks == file_blocks(path) && r->Ok_0.pos == 0 { unimplemented!() }
struct DataBlock { inner: Block }
impl DataBlock { fn new(inner: Block) -> (r: Self) ensures r.inner == inner { DataBlock { inner } } }
/// OwnedDataBlockIter::new(block, DataBlock::iter): the block's entries, front to back (units entry_codec / data_block_read)
struct OwnedDataBlockIter { ghost rest: Seq<InternalValue> }
impl OwnedDataBlockIter {
    #[verifier::external_body] fn new_iter(block: DataBlock) -> (r: Self) ensures r.rest == block.inner.items { unimplemented!() }
    #[verifier::external_body]
    fn next(&mut self) -> (r: Option<InternalValue>)
        ensures old(self).rest.len() == 0 ==> r is None && final(self).rest == old(self).rest,
            old(self).rest.len() > 0 ==> r == Some(old(self).rest[0]) && final(self).rest == old(self).rest.skip(1)
    { unimplemented!() }
}

/// all entries of blocks[from..to]
spec fn flat(blocks: Seq<Block>, from: int, to: int) -> Seq<InternalValue> decreases to - from
{ if from >= to { Seq::empty() } else { blocks[from].items + flat(blocks, from + 1, to) } }
spec fn shifted(v: InternalValue, g: SeqNo) -> InternalValue { InternalValue { key: InternalKey { user_key: v.key.user_key, seqno: (v.key.seqno + g) as u64, value_type: v.key.value_type }, value: v.value } }

//@ FROM src/table/scanner.rs :: - :: struct Scanner
//@ SUBST `BufReader < File >` ==> `FileReader`
struct Scanner {
    reader: FileReader,
    iter: OwnedDataBlockIter,

    compression: CompressionType,
    block_count: usize,
    read_count: usize,

    global_seqno: SeqNo,
}
//@ END
//@ SUBST `crate :: Result < $1 >` ==> `Result<$1, Error>`
//@ SUBST `crate :: Error ::` ==> `Error::`
//@ SUBST `& mut BufReader < File >` ==> `&mut FileReader`
//@ SUBST `OwnedDataBlockIter :: new ( block , DataBlock :: iter )` ==> `OwnedDataBlockIter::new_iter(block)`
//@ SUBST `( "BlockType" , block . header . block_type . into ( ) , )` ==> `(0, block.header.block_type.into())`
impl Scanner {
    /// what is still to come: the rest of the current block, then the blocks not yet fetched
    spec fn remaining(&self) -> Seq<InternalValue> { self.iter.rest + flat(self.reader.blocks, self.reader.pos, self.block_count as int) }
    spec fn wf(&self) -> bool {
        &&& self.read_count == self.reader.pos && self.read_count <= self.block_count <= self.reader.blocks.len()
        // every block the scan covers is a data block, and adding the global seqno does not overflow
        &&& forall|i: int| 0 <= i < self.remaining().len() ==> (#[trigger] self.remaining()[i]).key.seqno + self.global_seqno <= u64::MAX
    }

//@ FROM src/table/scanner.rs :: impl Scanner :: fn fetch_next_block :: OBL C12.24, C10.12
    fn fetch_next_block(
        reader: &mut FileReader,
        compression: CompressionType,
    ) -> /*+*/(r:/*-*/ Result<DataBlock, Error>/*+*/)
        ensures final(reader).blocks == old(reader).blocks,
            // Ok only with the next block of the file, and only if it is a data block
            r is Ok ==> 0 <= old(reader).pos < old(reader).blocks.len() && r->Ok_0.inner == old(reader).blocks[old(reader).pos] && final(reader).pos == old(reader).pos + 1
                && r->Ok_0.inner.header.block_type == BlockType::Data,/*-*/
    {
        let block = Block::from_reader(reader, compression);

        match block {
            Ok(block) => {
                if block.header.block_type != BlockType::Data {
                    return Err(Error::InvalidTag((0, block.header.block_type.into())));
                }

                Ok(DataBlock::new(block))
            }
            Err(e) => Err(e),
        }
    }
//@ END

//@ FROM src/table/scanner.rs :: impl Scanner :: fn new :: OBL C12.24
//@ SUBST `BufReader :: with_capacity ( 8 * 4_096 , File :: open ( path ) ? )` ==> `open_table_file(path)?`
    fn new(
        path: &Path,
        block_count: usize,
        compression: CompressionType,
        global_seqno: SeqNo,
    ) -> /*+*/(r:/*-*/ Result<Self, Error>/*+*/)
        ensures r is Ok ==> ({
            let s = r->Ok_0;
            // the scan starts with the first block of the file loaded and covers the entries of the first block_count blocks
            s.reader.blocks == file_blocks(path) && s.reader.pos == 1 && s.read_count == 1 && s.block_count == block_count && s.global_seqno == global_seqno
            && s.reader.blocks.len() >= 1 && s.iter.rest == s.reader.blocks[0].items
            && (1 <= block_count <= s.reader.blocks.len() ==> s.remaining() == flat(s.reader.blocks, 0, block_count as int)) }),/*-*/
    {
        let mut reader = open_table_file(path)?;

        let block = Self::fetch_next_block(&mut reader, compression)?;
        let iter = OwnedDataBlockIter::new_iter(block);
        /*+*/proof { if 1 <= block_count <= reader.blocks.len() { assert(flat(reader.blocks, 0, block_count as int) == reader.blocks[0].items + flat(reader.blocks, 1, block_count as int)); } }/*-*/

        Ok(Self {
            reader,
            iter,

            compression,
            block_count,
            read_count: 1,

            global_seqno,
        })
    }
//@ END

//@ FROM src/table/scanner.rs :: impl Iterator for Scanner :: fn next :: OBL C12.24, C14.10, C10.12
//@ SUBST `Self :: Item` ==> `Result<InternalValue, Error>`
    fn next(&mut self) -> /*+*/(r:/*-*/ Option<Result<InternalValue, Error>>/*+*/)
        requires old(self).wf()
        ensures
            // the end is reported exactly when nothing remains
            r is None ==> old(self).remaining().len() == 0,
            // an entry: exactly the next one, with the global seqno added; the rest is still to come
            r matches Some(Ok(v)) ==> old(self).remaining().len() > 0 && v == shifted(old(self).remaining()[0], old(self).global_seqno)
                && final(self).wf() && final(self).remaining() == old(self).remaining().skip(1)
                && final(self).block_count == old(self).block_count && final(self).global_seqno == old(self).global_seqno && final(self).reader.blocks == old(self).reader.blocks,/*-*/
    {
        loop
            /*+*/invariant self.wf(), self.remaining() == old(self).remaining(), self.block_count == old(self).block_count, self.global_seqno == old(self).global_seqno,
                self.reader.blocks == old(self).reader.blocks,
            decreases self.block_count - self.read_count/*-*/
        {
            /*+*/let ghost rem = self.remaining();/*-*/
            if let Some(mut item) = self.iter.next() {
                /*+*/proof { assert(rem[0] == item); assert(self.remaining() =~= rem.skip(1)); }/*-*/
                item.key.seqno += self.global_seqno;
                return Some(Ok(item));
            }

            if self.read_count >= self.block_count {
                /*+*/proof { reveal_with_fuel(flat, 1); assert(flat(self.reader.blocks, self.reader.pos, self.block_count as int) =~= Seq::<InternalValue>::empty()); }/*-*/
                return None;
            }

            let block = fail_iter!(Self::fetch_next_block(&mut self.reader, self.compression));
            self.iter = OwnedDataBlockIter::new_iter(block);
            /*+*/proof {
                let p = self.reader.pos - 1;
                assert(flat(self.reader.blocks, p, self.block_count as int) == self.reader.blocks[p].items + flat(self.reader.blocks, p + 1, self.block_count as int));
                assert(rem =~= flat(self.reader.blocks, p, self.block_count as int));
            }/*-*/

            self.read_count += 1;
        }
    }
//@ END
}
}
fn main() {}
