//@ UNIT trailer_rt
// Block trailer round trip (src/table/block/trailer.rs, decoder.rs, data_block/mod.rs): `Trailer::write` appends the trailer start
// marker, the binary index, (optionally) the hash index and the 31 trailer bytes whose fields say where those sections are; the
// readers - `Decoder::new`, `DataBlock::get_binary_index_reader`, `get_hash_index_reader`, `Trailer::item_count` - pick exactly these
// fields out of the last 31 bytes of the block.  Obligations C12.23, C11.9
use vstd::prelude::*;

//@ FROM src/lib.rs :: - :: macro_rules unwrap
macro_rules! unwrap {
    ($x:expr) => {{
        $x.expect("should read")
    }};
}
//@ END

verus! {
global size_of usize == 8;

// ---------------- prelude (TRUSTED) ----------------
#[derive(Debug)] struct Error { p: u8 }
pub uninterp spec fn le16(x: u16) -> Seq<u8>;
pub uninterp spec fn le32(x: u32) -> Seq<u8>;
pub uninterp spec fn un_le32(b: Seq<u8>) -> u32;
/// fixed-width little-endian coding (byteorder): invertible
#[verifier::external_body]
pub broadcast proof fn axiom_le()
    ensures
        forall|x: u16| #![trigger le16(x)] le16(x).len() == 2,
        forall|x: u32| #![trigger le32(x)] le32(x).len() == 4 && un_le32(le32(x)) == x,
{}
const TRAILER_START_MARKER: u8 = 255;
const TRAILER_SIZE: usize = 31;
const MAX_POINTERS_FOR_HASH_INDEX: usize = 254;

/// Vec<u8> as io::Write with byteorder (never fails short of allocation)
trait IoWrite: Sized {
    spec fn written(&self) -> Seq<u8>;
    fn write_u8(&mut self, x: u8) -> (r: Result<(), Error>) ensures r is Ok ==> (*final(self)).written() == (*old(self)).written() + seq![x];
    fn write_u16_le(&mut self, x: u16) -> (r: Result<(), Error>) ensures r is Ok ==> (*final(self)).written() == (*old(self)).written() + le16(x);
    fn write_u32_le(&mut self, x: u32) -> (r: Result<(), Error>) ensures r is Ok ==> (*final(self)).written() == (*old(self)).written() + le32(x);
}
impl IoWrite for Vec<u8> {
    spec fn written(&self) -> Seq<u8> { self@ }
    #[verifier::external_body] fn write_u8(&mut self, x: u8) -> (r: Result<(), Error>) { unimplemented!() }
    #[verifier::external_body] fn write_u16_le(&mut self, x: u16) -> (r: Result<(), Error>) { unimplemented!() }
    #[verifier::external_body] fn write_u32_le(&mut self, x: u32) -> (r: Result<(), Error>) { unimplemented!() }
}
/// binary_index::Builder::write (unit binary_index, C12.22): the pointer bytes, (step size, count)
struct BinaryIndexBuilder { ghost n: nat }
uninterp spec fn binidx_bytes(b: BinaryIndexBuilder) -> Seq<u8>;
uninterp spec fn binidx_step(b: BinaryIndexBuilder) -> u8;
impl BinaryIndexBuilder {
    #[verifier::external_body]
    fn write(&self, w: &mut Vec<u8>) -> (r: Result<(u8, usize), Error>)
        ensures r is Ok ==> final(w)@ == old(w)@ + binidx_bytes(*self) && r->Ok_0.0 == binidx_step(*self) && r->Ok_0.1 == self.n && binidx_bytes(*self).len() == self.n * binidx_step(*self)
    { unimplemented!() }
}
/// hash_index::Builder: one byte per bucket
struct HashIndexBuilder { ghost buckets: Seq<u8> }
impl HashIndexBuilder {
    #[verifier::external_body] fn bucket_count(&self) -> (r: u32) ensures r == self.buckets.len() { unimplemented!() }
    #[verifier::external_body]
    fn write(self, w: &mut Vec<u8>) -> (r: Result<(), Error>) ensures r is Ok ==> final(w)@ == old(w)@ + self.buckets { unimplemented!() }
}
/// the fields of block::Encoder that Trailer::write uses (R8)
struct Encoder<'a> { writer: &'a mut Vec<u8>, item_count: usize, restart_interval: u8, binary_index_builder: BinaryIndexBuilder, hash_index_builder: HashIndexBuilder }

/// the 31 trailer bytes
spec fn trailer_bytes(ri: u8, step: u8, bilen: u32, bioff: u32, hlen: u32, hoff: u32, count: u32) -> Seq<u8> {
    seq![ri, step] + le32(bilen) + le32(bioff) + le32(hlen) + le32(hoff) + seq![1u8, 0u8] + le16(0) + seq![0u8] + le32(0) + le32(count)
}
/// what a finished block payload looks like after the entries
spec fn sections(e_n: nat, bi: BinaryIndexBuilder, hash: Option<Seq<u8>>, w0: int, ri: u8, count: u32) -> Seq<u8> {
    let bioff = (w0 + 1) as u32;
    let hoff = if hash is Some { (w0 + 1 + binidx_bytes(bi).len()) as u32 } else { 0u32 };
    let hlen = if hash is Some && hoff > 0 { hash->Some_0.len() as u32 } else { 0u32 };
    seq![TRAILER_START_MARKER] + binidx_bytes(bi) + (if hash is Some { hash->Some_0 } else { Seq::<u8>::empty() })
        + trailer_bytes(ri, binidx_step(bi), bi.n as u32, bioff, hlen, hoff, count)
}

//@ FROM src/table/block/trailer.rs :: impl < 'a > Trailer < 'a > :: fn write :: OBL C12.23, C11.9
//@ SUBST `< S : Default , T : Encodable < S > >` ==> ``
//@ SUBST `Encoder < '_ , S , T >` ==> `Encoder`
//@ SUBST `crate :: Result < ( ) >` ==> `Result<(), Error>`
//@ SUBST `write_u32 :: < LittleEndian >` ==> `write_u32_le`
//@ SUBST `write_u16 :: < LittleEndian >` ==> `write_u16_le`
//@ SUBST `let bytes_before = encoder . writer . len ( ) ;` ==> ``
//@ SUBST `assert_eq ! ( TRAILER_SIZE , encoder . writer . len ( ) - bytes_before , "trailer size does not match" , ) ;` ==> ``
fn write(mut encoder: Encoder) -> /*+*/(r:/*-*/ Result<(), Error>/*+*/)
    requires old(encoder.writer)@.len() + 1 + binidx_bytes(encoder.binary_index_builder).len() + encoder.hash_index_builder.buckets.len() + 31 <= u32::MAX,
        encoder.item_count <= u32::MAX, encoder.binary_index_builder.n <= u32::MAX,
    ensures r is Ok ==> ({
        let w0 = old(encoder.writer)@; let bi = encoder.binary_index_builder; let hb = encoder.hash_index_builder.buckets;
        let with_hash = hb.len() > 0 && bi.n <= MAX_POINTERS_FOR_HASH_INDEX;
        final(encoder.writer)@ == w0 + sections(0, bi, if with_hash { Some(hb) } else { None }, w0.len() as int, encoder.restart_interval, encoder.item_count as u32) }),/*-*/
{
    /*+*/let ghost w0 = encoder.writer@; let ghost bi = encoder.binary_index_builder; let ghost hb = encoder.hash_index_builder.buckets;/*-*/
    // IMPORTANT: Terminator marker
    encoder.writer.write_u8(TRAILER_START_MARKER)?;

    let binary_index_offset = encoder.writer.len() as u32;

    // Write binary index
    let (binary_index_step_size, binary_index_len) =
        encoder.binary_index_builder.write(&mut encoder.writer)?;

    let mut hash_index_offset = 0u32;
    let hash_index_len = encoder.hash_index_builder.bucket_count();

    // NOTE: We can only use a hash index when there are 254 buckets or less
    // Because 254 and 255 are reserved marker values
    //
    // With the default restart interval of 16, that still gives us support
    // for up to ~4000 KVs
    /*+*/let ghost mut hash: Option<Seq<u8>> = None;/*-*/
    if encoder.hash_index_builder.bucket_count() > 0
        && binary_index_len <= MAX_POINTERS_FOR_HASH_INDEX
    {
        // NOTE: We know that data blocks will never even approach 4 GB in size
        {
            hash_index_offset = encoder.writer.len() as u32;
        }

        // Write hash index
        encoder.hash_index_builder.write(&mut encoder.writer)?;
        /*+*/proof { hash = Some(hb); }/*-*/
    }
    /*+*/let ghost w1 = encoder.writer@;
    proof { assert(w1 =~= w0 + (seq![TRAILER_START_MARKER] + binidx_bytes(bi) + (if hash is Some { hash->Some_0 } else { Seq::<u8>::empty() }))); }/*-*/

    // Write trailer

    encoder.writer.write_u8(encoder.restart_interval)?;

    encoder.writer.write_u8(binary_index_step_size)?;

    encoder
        .writer
        .write_u32_le(binary_index_len as u32)?;

    encoder
        .writer
        .write_u32_le(binary_index_offset)?;

    encoder
        .writer
        .write_u32_le(if hash_index_offset > 0 {
            hash_index_len
        } else {
            0
        })?;

    encoder
        .writer
        .write_u32_le(hash_index_offset)?;

    // Prefix truncation on/off (always on)
    encoder.writer.write_u8(1)?;

    // Fixed key size (unused)
    encoder.writer.write_u8(0)?;
    encoder.writer.write_u16_le(0)?;

    // Fixed value size (unused)
    encoder.writer.write_u8(0)?;
    encoder.writer.write_u32_le(0)?;

    encoder
        .writer
        .write_u32_le(encoder.item_count as u32)?;
    /*+*/proof {
        let hlen = if hash_index_offset > 0 { hash_index_len } else { 0u32 };
        assert(encoder.writer@ =~= w1 + trailer_bytes(encoder.restart_interval, binary_index_step_size, binary_index_len as u32, binary_index_offset, hlen, hash_index_offset, encoder.item_count as u32));
    }/*-*/

    Ok(())
}
//@ END

// ---------------- reader side ----------------
/// `&[u8]` used as an io::Read source with byteorder (in-memory: a read succeeds exactly when the bytes are there)
struct SliceReader { ghost rest: Seq<u8> }
impl SliceReader {
    #[verifier::external_body]
    fn read_u8(&mut self) -> (r: Result<u8, Error>)
        ensures old(self).rest.len() >= 1 ==> r is Ok && r->Ok_0 == old(self).rest[0] && final(self).rest == old(self).rest.skip(1)
    { unimplemented!() }
    #[verifier::external_body]
    fn read_u32_le(&mut self) -> (r: Result<u32, Error>)
        ensures old(self).rest.len() >= 4 ==> r is Ok && r->Ok_0 == un_le32(old(self).rest.subrange(0, 4)) && final(self).rest == old(self).rest.skip(4)
    { unimplemented!() }
}
#[verifier::external_body] struct Slice { p: u8 }
impl View for Slice { type V = Seq<u8>; uninterp spec fn view(&self) -> Seq<u8>; }
impl Slice {
    #[verifier::external_body] fn len(&self) -> (r: usize) ensures r == self@.len() { unimplemented!() }
    /// `unsafe { data.get_unchecked(start..) }`: the precondition is the safety condition
    #[verifier::external_body] fn tail_unchecked(&self, start: usize) -> (r: &[u8]) requires start <= self@.len() ensures r@ == self@.skip(start as int) { unimplemented!() }
    /// `&self.inner.data` as `&[u8]`
    #[verifier::external_body] fn as_bytes(&self) -> (r: &[u8]) ensures r@ == self@ { unimplemented!() }
}
struct Block { data: Slice }
/// a reader over `s[from..]` (`let mut reader = s;` / `unwrap!(s.get(from..))` / `&mut &s[from..]`)
#[verifier::external_body]
fn reader_from(s: &[u8], from: usize) -> (r: SliceReader) requires from <= s@.len() ensures r.rest == s@.skip(from as int) { unimplemented!() }

//@ FROM src/table/block/trailer.rs :: - :: struct Trailer
struct Trailer<'a> {
    block: &'a Block,
}
//@ END
/// the block ends with these trailer fields
spec fn ends_with(d: Seq<u8>, ri: u8, step: u8, bilen: u32, bioff: u32, hlen: u32, hoff: u32, count: u32) -> bool {
    d.len() >= 31 && d.skip(d.len() - 31) == trailer_bytes(ri, step, bilen, bioff, hlen, hoff, count)
}
/// field k of the trailer starts at byte k of the last 31
proof fn lemma_fields(t: Seq<u8>, ri: u8, step: u8, bilen: u32, bioff: u32, hlen: u32, hoff: u32, count: u32)
    requires t == trailer_bytes(ri, step, bilen, bioff, hlen, hoff, count)
    ensures t.len() == 31, t[0] == ri, t[1] == step,
        t.subrange(2, 6) == le32(bilen), t.subrange(6, 10) == le32(bioff), t.subrange(10, 14) == le32(hlen), t.subrange(14, 18) == le32(hoff), t.subrange(27, 31) == le32(count)
{
    broadcast use axiom_le;
    let a = seq![ri, step]; let z = seq![1u8, 0u8] + le16(0) + seq![0u8] + le32(0);
    assert(t =~= a + le32(bilen) + le32(bioff) + le32(hlen) + le32(hoff) + z + le32(count));
    assert(t.subrange(2, 6) =~= le32(bilen)); assert(t.subrange(6, 10) =~= le32(bioff)); assert(t.subrange(10, 14) =~= le32(hlen)); assert(t.subrange(14, 18) =~= le32(hoff));
    assert(t.subrange(27, 31) =~= le32(count));
}

impl<'a> Trailer<'a> {
//@ FROM src/table/block/trailer.rs :: impl < 'a > Trailer < 'a > :: fn new
    fn new(block: &'a Block) -> /*+*/(r:/*-*/ Self/*+*/) ensures r.block == block/*-*/ {
        Self { block }
    }
//@ END
//@ FROM src/table/block/trailer.rs :: impl < 'a > Trailer < 'a > :: fn trailer_offset :: OBL C12.23, C11.9
    fn trailer_offset(&self) -> /*+*/(r:/*-*/ usize/*+*/)
        requires self.block.data@.len() >= 31
        ensures r == self.block.data@.len() - 31/*-*/
    {
        self.block.data.len() - TRAILER_SIZE
    }
//@ END
//@ FROM src/table/block/trailer.rs :: impl < 'a > Trailer < 'a > :: fn as_slice :: OBL C12.23, C11.9
//@ SUBST `unsafe { self . block . data . get_unchecked ( start .. ) }` ==> `self.block.data.tail_unchecked(start)`
    fn as_slice(&self) -> /*+*/(r:/*-*/ &[u8]/*+*/)
        requires self.block.data@.len() >= 31
        ensures r@ == self.block.data@.skip(self.block.data@.len() - 31)/*-*/
    {
        let start = self.trailer_offset();

        // SAFETY: We know that a block always has a trailer, so the
        // `block_size - TRAILER_SIZE` cannot go out of bounds
        self.block.data.tail_unchecked(start)
    }
//@ END
//@ FROM src/table/block/trailer.rs :: impl < 'a > Trailer < 'a > :: fn item_count :: OBL C12.23
//@ SUBST `& mut & reader [ ( TRAILER_SIZE - std :: mem :: size_of :: < u32 > ( ) ) .. ]` ==> `&mut reader_from(reader, TRAILER_SIZE - std::mem::size_of::<u32>())`
//@ SUBST `read_u32 :: < LittleEndian >` ==> `read_u32_le`
    fn item_count(&self/*+*/, Ghost(f): Ghost<(u8, u8, u32, u32, u32, u32, u32)>/*-*/) -> /*+*/(r:/*-*/ usize/*+*/)
        requires ends_with(self.block.data@, f.0, f.1, f.2, f.3, f.4, f.5, f.6)
        ensures r == f.6/*-*/
    {
        /*+*/proof { broadcast use axiom_le; lemma_fields(self.block.data@.skip(self.block.data@.len() - 31), f.0, f.1, f.2, f.3, f.4, f.5, f.6); }/*-*/
        let reader = self.as_slice();

        let reader = &mut reader_from(reader, TRAILER_SIZE - std::mem::size_of::<u32>());
        /*+*/proof { assert(reader.rest.subrange(0, 4) =~= self.block.data@.skip(self.block.data@.len() - 31).subrange(27, 31)); }/*-*/

        {
            reader
                .read_u32_le()
                .expect("should read item count") as usize
        }
    }
//@ END
}

//@ FROM src/table/block/decoder.rs :: - :: struct LoScanner
struct LoScanner {
    offset: usize,
    remaining_in_interval: usize,
    base_key_offset: Option<usize>,
}
//@ END
//@ FROM src/table/block/decoder.rs :: - :: struct HiScanner
struct HiScanner {
    offset: usize,
    ptr_idx: usize,
    stack: Vec<usize>, // TODO: SmallVec?
    base_key_offset: Option<usize>,
}
//@ END
//@ FROM src/table/block/decoder.rs :: - :: struct Decoder
//@ SUBST `< 'a , Item : Decodable < Parsed > , Parsed : ParsedItem < Item > >` ==> `<'a>`
//@ SUBST `phantom : PhantomData < ( Item , Parsed ) > ,` ==> ``
struct Decoder<'a> {
    block: &'a Block,

    lo_scanner: LoScanner,
    hi_scanner: HiScanner,

    // Cached metadata
    restart_interval: u8,
    binary_index_step_size: u8,
    binary_index_offset: u32,
    binary_index_len: u32,
}
//@ END
//@ SUBST `read_u32 :: < LittleEndian >` ==> `read_u32_le`
//@ SUBST `debug_assert ! ( $1 ) ;` ==> ``
//@ SUBST `debug_assert_eq ! ( $1 ) ;` ==> ``
impl<'a> Decoder<'a> {
//@ FROM src/table/block/decoder.rs :: impl < 'a , Item : Decodable < Parsed > , Parsed : ParsedItem < Item > > Decoder < 'a , Item , Parsed > :: fn new :: OBL C12.23, C11.9
//@ SUBST `let mut reader = trailer . as_slice ( ) ;` ==> `let mut reader = reader_from(trailer.as_slice(), 0);`
//@ SUBST `phantom : PhantomData ,` ==> ``
    fn new(block: &'a Block/*+*/, Ghost(f): Ghost<(u8, u8, u32, u32, u32, u32, u32)>/*-*/) -> /*+*/(r:/*-*/ Self/*+*/)
        requires ends_with(block.data@, f.0, f.1, f.2, f.3, f.4, f.5, f.6)
        ensures r.block == block,
            // the cached fields are the trailer's: restart interval, pointer width, number of restart heads, where the binary index starts
            r.restart_interval == f.0, r.binary_index_step_size == f.1, r.binary_index_len == f.2, r.binary_index_offset == f.3,
            // the front scanner starts at the first entry (a restart head), the back scanner behind the last restart interval
            r.lo_scanner.offset == 0 && r.lo_scanner.remaining_in_interval == 0 && r.lo_scanner.base_key_offset is None,
            r.hi_scanner.ptr_idx == f.2 && r.hi_scanner.stack@.len() == 0 && r.hi_scanner.base_key_offset is None,/*-*/
    {
        /*+*/proof { broadcast use axiom_le; lemma_fields(block.data@.skip(block.data@.len() - 31), f.0, f.1, f.2, f.3, f.4, f.5, f.6); }
        let ghost t = block.data@.skip(block.data@.len() - 31);/*-*/
        let trailer = Trailer::new(block);
        let mut reader = reader_from(trailer.as_slice(), 0);
        /*+*/proof { assert(reader.rest =~= t); }/*-*/

        let restart_interval = unwrap!(reader.read_u8());

        let binary_index_step_size = unwrap!(reader.read_u8());
        /*+*/proof { assert(reader.rest =~= t.skip(2)); assert(t.skip(2).subrange(0, 4) =~= t.subrange(2, 6)); }/*-*/

        let binary_index_len = unwrap!(reader.read_u32_le());
        /*+*/proof { assert(reader.rest =~= t.skip(6)); assert(t.skip(6).subrange(0, 4) =~= t.subrange(6, 10)); }/*-*/
        let binary_index_offset = unwrap!(reader.read_u32_le());

        Self {
            block,

            lo_scanner: LoScanner {
                offset: 0,
                remaining_in_interval: 0,
                base_key_offset: None,
            },

            hi_scanner: HiScanner {
                offset: 0,
                ptr_idx: binary_index_len as usize,
                stack: Vec::new(),
                base_key_offset: None,
            },

            restart_interval,

            binary_index_step_size,
            binary_index_offset,
            binary_index_len,
        }
    }
//@ END
}

/// binary_index::Reader::new / hash_index::Reader::new (units binary_index, hash_index): views of data[offset ..]
struct BinaryIndexReader { ghost data: Seq<u8>, ghost offset: u32, ghost len: u32, ghost step: u8 }
impl BinaryIndexReader {
    #[verifier::external_body]
    fn new(bytes: &[u8], offset: u32, len: u32, step_size: u8) -> (r: Self) ensures r.data == bytes@, r.offset == offset, r.len == len, r.step == step_size { unimplemented!() }
}
struct HashIndexReader { ghost data: Seq<u8>, ghost offset: u32, ghost len: u32 }
impl HashIndexReader {
    #[verifier::external_body]
    fn new(bytes: &[u8], offset: u32, len: u32) -> (r: Self) ensures r.data == bytes@, r.offset == offset, r.len == len { unimplemented!() }
}
//@ FROM src/table/data_block/mod.rs :: - :: struct DataBlock
struct DataBlock {
    inner: Block,
}
//@ END
//@ SUBST `& self . inner . data ,` ==> `self.inner.data.as_bytes(),`
//@ SUBST `unwrap ! ( trailer . as_slice ( ) . get ( offset .. ) )` ==> `reader_from(trailer.as_slice(), offset)`
//@ SUBST `use std :: mem :: size_of ;` ==> ``
//@ SUBST `BinaryIndexReader < '_ >` ==> `BinaryIndexReader`
//@ SUBST `HashIndexReader < '_ >` ==> `HashIndexReader`
impl DataBlock {
//@ FROM src/table/data_block/mod.rs :: impl DataBlock :: fn get_binary_index_reader :: OBL C12.23, C11.9
    fn get_binary_index_reader(&self/*+*/, Ghost(f): Ghost<(u8, u8, u32, u32, u32, u32, u32)>/*-*/) -> /*+*/(r:/*-*/ BinaryIndexReader/*+*/)
        requires ends_with(self.inner.data@, f.0, f.1, f.2, f.3, f.4, f.5, f.6)
        ensures r.data == self.inner.data@, r.step == f.1, r.len == f.2, r.offset == f.3/*-*/
    {
        /*+*/proof { broadcast use axiom_le; lemma_fields(self.inner.data@.skip(self.inner.data@.len() - 31), f.0, f.1, f.2, f.3, f.4, f.5, f.6); }
        let ghost t = self.inner.data@.skip(self.inner.data@.len() - 31);/*-*/

        let trailer = Trailer::new(&self.inner);

        // NOTE: Skip restart interval (u8)
        let offset = size_of::<u8>();

        let mut reader = reader_from(trailer.as_slice(), offset);
        /*+*/proof { assert(reader.rest =~= t.skip(1)); }/*-*/

        let binary_index_step_size = unwrap!(reader.read_u8());
        /*+*/proof { assert(reader.rest =~= t.skip(2)); assert(t.skip(2).subrange(0, 4) =~= t.subrange(2, 6)); }/*-*/

        let binary_index_len = unwrap!(reader.read_u32_le());
        /*+*/proof { assert(reader.rest =~= t.skip(6)); assert(t.skip(6).subrange(0, 4) =~= t.subrange(6, 10)); }/*-*/
        let binary_index_offset = unwrap!(reader.read_u32_le());

        BinaryIndexReader::new(
            self.inner.data.as_bytes(),
            binary_index_offset,
            binary_index_len,
            binary_index_step_size,
        )
    }
//@ END

//@ FROM src/table/data_block/mod.rs :: impl DataBlock :: fn get_hash_index_reader :: OBL C12.23, C11.9
    fn get_hash_index_reader(&self/*+*/, Ghost(f): Ghost<(u8, u8, u32, u32, u32, u32, u32)>/*-*/) -> /*+*/(r:/*-*/ Option<HashIndexReader>/*+*/)
        requires ends_with(self.inner.data@, f.0, f.1, f.2, f.3, f.4, f.5, f.6)
        ensures
            // a hash index is used exactly when the trailer records a non-zero length, and then at the recorded place
            (f.4 == 0) == (r is None),
            r is Some ==> r->Some_0.data == self.inner.data@ && r->Some_0.offset == f.5 && r->Some_0.len == f.4/*-*/
    {
        /*+*/proof { broadcast use axiom_le; lemma_fields(self.inner.data@.skip(self.inner.data@.len() - 31), f.0, f.1, f.2, f.3, f.4, f.5, f.6); }
        let ghost t = self.inner.data@.skip(self.inner.data@.len() - 31);/*-*/

        let trailer = Trailer::new(&self.inner);

        // NOTE: Skip restart interval (u8), binary index step size (u8)
        // and binary stuff (2x u32)
        let offset = size_of::<u8>() + size_of::<u8>() + size_of::<u32>() + size_of::<u32>();

        let mut reader = reader_from(trailer.as_slice(), offset);
        /*+*/proof { assert(reader.rest =~= t.skip(10)); assert(t.skip(10).subrange(0, 4) =~= t.subrange(10, 14)); }/*-*/

        let hash_index_len = unwrap!(reader.read_u32_le());
        /*+*/proof { assert(reader.rest =~= t.skip(14)); assert(t.skip(14).subrange(0, 4) =~= t.subrange(14, 18)); }/*-*/
        let hash_index_offset = unwrap!(reader.read_u32_le());

        if hash_index_len == 0 {
            None
        } else {
            Some(HashIndexReader::new(
                self.inner.data.as_bytes(),
                hash_index_offset,
                hash_index_len,
            ))
        }
    }
//@ END
}
}
fn main() {}
