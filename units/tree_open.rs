//@ UNIT tree_open
// Tree::open, Tree::create_new (src/tree/mod.rs), TreeInner::create_new (src/tree/inner.rs): a directory is recovered exactly
// when it has a `current` file and is otherwise created from scratch (so a creation that crashed before `current` was published
// is simply redone); creation makes and syncs the folders first, persists the empty version 0 of the configured tree type, and
// only then starts the in-memory history with it.  Obligations C05.7, C04.12
use vstd::prelude::*;
use std::sync::Arc;
verus! {

global size_of usize == 8;
type TreeId = u64;

enum Error { Io, InvalidVersion(u8) }
#[verifier::external_body] struct KvOpts { p: u8 }
/// a path inside the tree folder (ghost: which one)
#[derive(Copy, Clone, PartialEq, Eq, Structural)] enum Which { Root, Tables, V1Marker, Current, Other }
struct PathBuf { ghost w: Which }
impl PathBuf {
    #[verifier::external_body] fn clone(&self) -> (r: Self) ensures r == *self { unimplemented!() }
    /// `path.join(TABLES_FOLDER)`, `path.join("version")`, `path.join(CURRENT_VERSION_FILE)` (R12: which file a joined path names)
    #[verifier::external_body] fn join_tables(&self) -> (r: PathBuf) requires self.w == Which::Root ensures r.w == Which::Tables { unimplemented!() }
    #[verifier::external_body] fn join_v1_marker(&self) -> (r: PathBuf) requires self.w == Which::Root ensures r.w == Which::V1Marker { unimplemented!() }
    #[verifier::external_body] fn join_current(&self) -> (r: PathBuf) requires self.w == Which::Root ensures r.w == Which::Current { unimplemented!() }
    /// Path::try_exists: whether the file is there (ghost directory state in the effect token)
    #[verifier::external_body] fn try_exists(&self, Tracked(fx): Tracked<&mut Fx>) -> (r: Result<bool, Error>)
        ensures *final(fx) == *old(fx), r is Ok ==> (self.w == Which::Current ==> r->Ok_0 == old(fx).has_current) && (self.w == Which::V1Marker ==> r->Ok_0 == old(fx).has_v1)
    { unimplemented!() }
}
#[derive(Copy, Clone, PartialEq, Eq, Structural)] enum TreeType { Standard, Blob }
#[derive(Copy, Clone, PartialEq, Eq, Structural)] enum FormatVersion { V1, V2, V3 }
impl vstd::std_specs::convert::FromSpecImpl<FormatVersion> for u8 { open spec fn obeys_from_spec() -> bool { false } uninterp spec fn from_spec(v: FormatVersion) -> u8; }
impl From<FormatVersion> for u8 { #[verifier::external_body] fn from(v: FormatVersion) -> (r: u8) { unimplemented!() } }
#[derive(Copy, Clone, PartialEq, Eq, Structural)] enum Ev { MkRoot, MkTables, SyncTables, SyncRoot, PersistV0(TreeType) }
/// effect token (R15): what the directory contains and what creation has done so far
/// `has_root` / `has_tables`: folders an interrupted earlier creation may have left; `fault`: some file-system call reported an I/O error
struct Fx { ghost has_current: bool, ghost has_v1: bool, ghost log: Seq<Ev>, ghost has_root: bool, ghost has_tables: bool, ghost fault: bool }
spec fn dir_there(fx: Fx, w: Which) -> bool { if w == Which::Tables { fx.has_tables } else { fx.has_root } }
spec fn same_files(a: Fx, b: Fx) -> bool { a.has_current == b.has_current && a.has_v1 == b.has_v1 }
/// std::fs::create_dir_all: succeeds when the folder already exists; fails only on an I/O error
#[verifier::external_body] fn create_dir_all(p: &PathBuf, Tracked(fx): Tracked<&mut Fx>) -> (r: Result<(), Error>)
    ensures same_files(*final(fx), *old(fx)), final(fx).fault == (old(fx).fault || r is Err),
        r is Ok ==> final(fx).log == old(fx).log.push(if p.w == Which::Tables { Ev::MkTables } else { Ev::MkRoot }) && dir_there(*final(fx), p.w), r is Err ==> final(fx).log == old(fx).log
{ unimplemented!() }
/// std::fs::create_dir: ALSO fails (AlreadyExists) when the folder is there
#[verifier::external_body] fn create_dir(p: &PathBuf, Tracked(fx): Tracked<&mut Fx>) -> (r: Result<(), Error>)
    ensures same_files(*final(fx), *old(fx)), dir_there(*old(fx), p.w) ==> r is Err, r is Err ==> (final(fx).fault || dir_there(*old(fx), p.w)), (old(fx).fault ==> final(fx).fault),
        r is Ok ==> final(fx).log == old(fx).log.push(if p.w == Which::Tables { Ev::MkTables } else { Ev::MkRoot }) && dir_there(*final(fx), p.w), r is Err ==> final(fx).log == old(fx).log
{ unimplemented!() }
#[verifier::external_body] fn fsync_directory(p: &PathBuf, Tracked(fx): Tracked<&mut Fx>) -> (r: Result<(), Error>)
    ensures final(fx).has_current == old(fx).has_current, final(fx).has_v1 == old(fx).has_v1, final(fx).fault == (old(fx).fault || r is Err),
        r is Ok ==> final(fx).log == old(fx).log.push(if p.w == Which::Tables { Ev::SyncTables } else { Ev::SyncRoot }), r is Err ==> final(fx).log == old(fx).log
{ unimplemented!() }
struct Version { ghost id: u64, ghost tt: TreeType }
impl Version { #[verifier::external_body] fn new(id: u64, tt: TreeType) -> (r: Self) ensures r.id == id, r.tt == tt { unimplemented!() } }
/// version::persist::persist_version (unit durability, C05.1): Ok <=> v<id> is durable and `current` names it
#[verifier::external_body] fn persist_version(p: &PathBuf, v: &Version, Tracked(fx): Tracked<&mut Fx>) -> (r: Result<(), Error>)
    requires p.w == Which::Root
    ensures final(fx).has_v1 == old(fx).has_v1, final(fx).fault == (old(fx).fault || r is Err), r is Ok ==> final(fx).has_current && final(fx).log == old(fx).log.push(Ev::PersistV0(v.tt)), r is Err ==> final(fx).log == old(fx).log
{ unimplemented!() }
struct Config { path: PathBuf, kv_separation_opts: Option<KvOpts> }
struct SequenceNumberCounter { ghost next: u64 }
impl SequenceNumberCounter {
    #[verifier::external_body] fn new(prev: u64) -> (r: Self) ensures r.next == prev { unimplemented!() }
    #[verifier::external_body] fn default() -> (r: Self) ensures r.next == 0 { unimplemented!() }
}
struct SuperVersions { ghost first: Version }
impl SuperVersions { #[verifier::external_body] fn new(v: Version) -> (r: Self) ensures r.first == v { unimplemented!() } }
#[verifier::external_body] struct StopSignal { p: u8 }
impl StopSignal { #[verifier::external_body] fn default() -> (r: Self) { unimplemented!() } }
#[verifier::external_body] struct CompactionState { p: u8 }
impl CompactionState { #[verifier::external_body] fn default() -> (r: Self) { unimplemented!() } }
struct RwLock<T> { v: T }
impl<T> RwLock<T> { fn new(v: T) -> (r: Self) ensures r.v == v { RwLock { v } } }
struct Mutex<T> { v: T }
impl<T> Mutex<T> { fn new(v: T) -> (r: Self) ensures r.v == v { Mutex { v } } }
struct UnitLock { p: u8 }
impl UnitLock { fn default() -> (r: Self) { UnitLock { p: 0 } } }
#[verifier::external_body] fn get_next_tree_id() -> (r: TreeId) { unimplemented!() }

//@ FROM src/tree/inner.rs :: - :: struct TreeInner
//@ SUBST `RwLock < ( ) >` ==> `UnitLock`
//@ SUBST `Mutex < ( ) >` ==> `UnitLock`
struct TreeInner {
    id: TreeId,

    memtable_id_counter: SequenceNumberCounter,

    table_id_counter: SequenceNumberCounter,

    blob_file_id_counter: SequenceNumberCounter,

    version_history: Arc<RwLock<SuperVersions>>,

    compaction_state: Arc<Mutex<CompactionState>>,

    config: Arc<Config>,

    stop_signal: StopSignal,

    major_compaction_lock: UnitLock,

    flush_lock: UnitLock,
}
//@ END
spec fn wanted_type(c: Config) -> TreeType { if c.kv_separation_opts is Some { TreeType::Blob } else { TreeType::Standard } }

//@ SUBST `crate :: Result < Self >` ==> `Result<Self, Error>`
//@ SUBST `crate :: TreeType ::` ==> `TreeType::`
//@ SUBST `crate :: Error ::` ==> `Error::`
impl TreeInner {
//@ FROM src/tree/inner.rs :: impl TreeInner :: fn create_new :: OBL C05.7, C04.12
//@ SUBST `persist_version ( $1 )` ==> `persist_version($1, Tracked(fx))`
//@ SUBST `RwLock :: default ( )` ==> `UnitLock::default()`
//@ SUBST `Mutex :: default ( )` ==> `UnitLock::default()`
    fn create_new(config: Config/*+*/, Tracked(fx): Tracked<&mut Fx>/*-*/) -> /*+*/(r:/*-*/ Result<Self, Error>/*+*/)
        requires config.path.w == Which::Root
        ensures r is Err ==> final(fx).log == old(fx).log, final(fx).fault == (old(fx).fault || r is Err),
            // the in-memory tree only exists once the empty version 0 of the configured type is durable; ids start from scratch
            r is Ok ==> final(fx).has_current && final(fx).log == old(fx).log.push(Ev::PersistV0(wanted_type(config)))
                && r->Ok_0.version_history.v.first.id == 0 && r->Ok_0.version_history.v.first.tt == wanted_type(config)
                && r->Ok_0.table_id_counter.next == 0 && r->Ok_0.blob_file_id_counter.next == 0,/*-*/
    {
        let version = Version::new(
            0,
            if config.kv_separation_opts.is_some() {
                TreeType::Blob
            } else {
                TreeType::Standard
            },
        );
        persist_version(&config.path, &version, Tracked(fx))?;

        Ok(Self {
            id: get_next_tree_id(),
            memtable_id_counter: SequenceNumberCounter::new(1),
            table_id_counter: SequenceNumberCounter::default(),
            blob_file_id_counter: SequenceNumberCounter::default(),
            config: Arc::new(config),
            version_history: Arc::new(RwLock::new(SuperVersions::new(version))),
            stop_signal: StopSignal::default(),
            major_compaction_lock: UnitLock::default(),
            flush_lock: UnitLock::default(),
            compaction_state: Arc::new(Mutex::new(CompactionState::default())),
        })
    }
//@ END
}

struct Tree(Arc<TreeInner>);
/// what happened in open
enum How { Recovered, Created }
impl Tree {
    /// Tree::recover (units recover_levels, tree_recover): does not create anything
    #[verifier::external_body]
    fn recover(config: Config, Tracked(fx): Tracked<&mut Fx>) -> (r: Result<Self, Error>) requires old(fx).has_current ensures final(fx).log == old(fx).log, final(fx).has_current { unimplemented!() }

//@ FROM src/tree/mod.rs :: impl Tree :: fn create_new :: OBL C05.7
//@ SUBST `use crate :: file :: { fsync_directory , TABLES_FOLDER } ;` ==> ``
//@ SUBST `use std :: fs :: $1 ;` ==> ``
//@ SUBST `create_dir ( $1 )` ==> `create_dir($1, Tracked(fx))`
//@ SUBST `path . join ( TABLES_FOLDER )` ==> `path.join_tables()`
//@ SUBST `create_dir_all ( $1 )` ==> `create_dir_all($1, Tracked(fx))`
//@ SUBST `fsync_directory ( $1 )` ==> `fsync_directory($1, Tracked(fx))`
//@ SUBST `TreeInner :: create_new ( config )` ==> `TreeInner::create_new(config, Tracked(fx))`
    fn create_new(config: Config/*+*/, Tracked(fx): Tracked<&mut Fx>/*-*/) -> /*+*/(r:/*-*/ Result<Self, Error>/*+*/)
        requires config.path.w == Which::Root
        ensures
            // creation can be redone after a crash: whatever an interrupted creation left behind, it fails only on an I/O error
            r is Err ==> final(fx).fault || old(fx).fault,
            r is Ok ==> final(fx).has_current
            // folders are made and synced - tables folder first, then the root - before version 0 is persisted
            && final(fx).log == old(fx).log + seq![Ev::MkRoot, Ev::MkTables, Ev::SyncTables, Ev::SyncRoot, Ev::PersistV0(wanted_type(config))],/*-*/
    {
        /*+*/let ghost wt = wanted_type(config);/*-*/
        let path = config.path.clone();

        create_dir_all(&path, Tracked(fx))?;

        let table_folder_path = path.join_tables();
        create_dir_all(&table_folder_path, Tracked(fx))?;

        // IMPORTANT: fsync folders on Unix
        fsync_directory(&table_folder_path, Tracked(fx))?;
        fsync_directory(&path, Tracked(fx))?;

        let inner = TreeInner::create_new(config, Tracked(fx))?;
        /*+*/proof { assert(fx.log =~= old(fx).log + seq![Ev::MkRoot, Ev::MkTables, Ev::SyncTables, Ev::SyncRoot, Ev::PersistV0(wt)]); }/*-*/
        Ok(Self(Arc::new(inner)))
    }
//@ END

//@ FROM src/tree/mod.rs :: impl Tree :: fn open :: OBL C05.7
//@ SUBST `config . path . join ( "version" )` ==> `config.path.join_v1_marker()`
//@ SUBST `config . path . join ( CURRENT_VERSION_FILE )` ==> `config.path.join_current()`
//@ SUBST `. try_exists ( )` ==> `.try_exists(Tracked(fx))`
//@ SUBST `Self :: recover ( config )` ==> `Self::recover(config, Tracked(fx))`
//@ SUBST `Self :: create_new ( config )` ==> `Self::create_new(config, Tracked(fx))`
    fn open(config: Config/*+*/, Tracked(fx): Tracked<&mut Fx>/*-*/) -> /*+*/(r:/*-*/ Result<Self, Error>/*+*/)
        requires config.path.w == Which::Root
        ensures
            // a V1 marker refuses; otherwise: `current` present => recovery (nothing is created), absent => creation from scratch
            r is Ok ==> !old(fx).has_v1 && final(fx).has_current
                && (old(fx).has_current ==> final(fx).log == old(fx).log)
                && (!old(fx).has_current ==> final(fx).log == old(fx).log + seq![Ev::MkRoot, Ev::MkTables, Ev::SyncTables, Ev::SyncRoot, Ev::PersistV0(wanted_type(config))]),/*-*/
    {
        // Check for old version
        if config.path.join_v1_marker().try_exists(Tracked(fx))? {
            return Err(Error::InvalidVersion(FormatVersion::V1.into()));
        }

        let tree = if config.path.join_current().try_exists(Tracked(fx))? {
            Self::recover(config, Tracked(fx))
        } else {
            Self::create_new(config, Tracked(fx))
        }?;

        Ok(tree)
    }
//@ END
}

}
fn main() {}
