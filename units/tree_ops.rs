#![feature(allocator_api)]
//@ UNIT tree_ops
// Tree::clear: always installs exactly one new, empty super version on top of the history.  Obligations C15.5, C02.6
use vstd::prelude::*;
use std::sync::Arc;
verus! {

pub type SeqNo = u64;
#[verifier::external_body] pub struct Error { p: u8 }
#[verifier::external_body] pub struct Path { p: u8 }

// ---------------- prelude (R8) ----------------
#[derive(Clone, Copy, PartialEq, Eq, Structural)]
pub enum TreeType { Standard, Blob }
pub struct Memtable { pub id: u64, pub items: Seq<u64> }
impl Memtable {
    #[verifier::external_body]
    pub fn new(id: u64) -> (r: Memtable) ensures r.id == id, r.items.len() == 0 { unimplemented!() }
    #[verifier::external_body]
    pub fn is_empty(&self) -> (r: bool) ensures r == (self.items.len() == 0) { unimplemented!() }
}
pub struct SealedMemtables { pub v: Seq<u64> }
impl SealedMemtables {
    /// SealedMemtables::add (src/tree/sealed.rs: clone + push): appended at the end, i.e. newest last
    #[verifier::external_body]
    pub fn add(&self, memtable: Arc<Memtable>) -> (r: Self) ensures r.v == self.v.push(memtable.id) { unimplemented!() }
}

impl Default for SealedMemtables { #[verifier::external_body] fn default() -> (r: Self) ensures r.v.len() == 0 { unimplemented!() } }
pub struct Version { pub id: u64, pub tables: Seq<u64>, pub tree_type: TreeType }
impl Version {
    #[verifier::external_body]
    pub fn new(id: u64, tree_type: TreeType) -> (r: Version) ensures r.id == id, r.tables.len() == 0, r.tree_type == tree_type { unimplemented!() }
    pub fn id(&self) -> (r: u64) ensures r == self.id { self.id }
    #[verifier::external_body]
    pub fn table_count(&self) -> (r: usize) ensures r == self.tables.len() { unimplemented!() }
}
pub struct SuperVersion { pub active_memtable: Arc<Memtable>, pub sealed_memtables: Arc<SealedMemtables>, pub version: Version, pub seqno: SeqNo }
impl Clone for SuperVersion { #[verifier::external_body] fn clone(&self) -> (r: Self) ensures r == *self { unimplemented!() } }
pub open spec fn is_cleared(e: SuperVersion, prev: SuperVersion) -> bool {
    e.active_memtable.items.len() == 0 && e.sealed_memtables.v.len() == 0 && e.version.tables.len() == 0 && e.version.id == prev.version.id + 1
}

#[verifier::external_body] pub struct SequenceNumberCounter { p: u8 }
impl SequenceNumberCounter { #[verifier::external_body] pub fn next(&self) -> (r: u64) { unimplemented!() } }

/// contract of SuperVersions::upgrade_version as proved in unit `super_versions` (obligations C02.4 / C16.1)
pub struct SuperVersions { pub h: Vec<SuperVersion> }
impl SuperVersions {
    #[verifier::external_body]
    pub fn upgrade_version<F: FnOnce(&SuperVersion) -> Result<SuperVersion, Error>>(&mut self, tree_path: &Path, f: F, seqno: &SequenceNumberCounter, visible_seqno: &SequenceNumberCounter) -> (r: Result<(), Error>)
        requires old(self).h@.len() > 0, call_requires(f, (&old(self).h@.last(),)),
        ensures
            r is Err ==> final(self).h@ == old(self).h@,
            r is Ok ==> final(self).h@.len() == old(self).h@.len() + 1 && final(self).h@.drop_last() == old(self).h@
                && (exists|sv: SuperVersion| #[trigger] call_ensures(f, (&old(self).h@.last(),), Ok::<SuperVersion, Error>(sv))
                    && final(self).h@.last().version == sv.version && final(self).h@.last().active_memtable == sv.active_memtable && final(self).h@.last().sealed_memtables == sv.sealed_memtables),
    { unimplemented!() }
    #[verifier::external_body]
    pub fn latest_version(&self) -> (r: SuperVersion) requires self.h@.len() > 0 ensures r == self.h@.last() { unimplemented!() }
    /// contract proved in unit super_versions (C02.5): the newest entry is replaced, nothing is appended
    #[verifier::external_body]
    pub fn replace_latest_version(&mut self, version: SuperVersion)
        ensures old(self).h@.len() > 0 ==> final(self).h@ == old(self).h@.drop_last().push(version), old(self).h@.len() == 0 ==> final(self).h@ == old(self).h@
    { unimplemented!() }
}
pub struct Config { pub path: Path, pub seqno: SequenceNumberCounter, pub visible_seqno: SequenceNumberCounter }
pub struct Tree { pub config: Config, pub memtable_id_counter: SequenceNumberCounter, pub tt: TreeType }
impl Tree {
    pub fn tree_config(&self) -> (r: &Config) ensures r == &self.config { &self.config }
    pub fn tree_type(&self) -> (r: TreeType) ensures r == self.tt { self.tt }
}

//@ WRAPPER_BEGIN
impl Tree {
    /// wrapper (generated) around the body of `AbstractTree::clear` for Tree; the lock acquisition
    /// `let mut versions = self.get_version_history_lock();` is replaced by the `versions` parameter (what the guard derefs to)
    fn clear_body(&self, versions: &mut SuperVersions) -> (r: Result<(), Error>)
        requires old(versions).h@.len() > 0, old(versions).h@.last().version.id < u64::MAX,
        ensures
            // C16: a failed clear changes nothing
            r is Err ==> final(versions).h@ == old(versions).h@,
            // C15.5 / C02.6: a successful clear appends exactly one super version that is empty (no memtable content, no sealed
            // memtables, no tables) - whatever the tree held - and leaves every older entry (hence every older snapshot's view) untouched
            r is Ok ==> final(versions).h@.len() == old(versions).h@.len() + 1 && final(versions).h@.drop_last() == old(versions).h@
                && is_cleared(final(versions).h@.last(), old(versions).h@.last()),
    {
//@ FROM src/tree/mod.rs :: AbstractTree for Tree :: fn clear :: STMTS `let config =` .. `versions . upgrade_version (` :: OBL C15.5, C02.6
//@ SUBST `let mut versions = self . get_version_history_lock ( ) ;` ==> ``
        let config = self.tree_config();

        versions.upgrade_version(
            &config.path,
            |v/*+*/: &SuperVersion/*-*/| /*+*/-> (o: Result<SuperVersion, Error>)
                requires v.version.id < u64::MAX
                ensures o is Ok && is_cleared(o->Ok_0, *v)/*-*/
            {
                let mut copy = v.clone();
                copy.active_memtable = Arc::new(Memtable::new(self.memtable_id_counter.next()));
                copy.sealed_memtables = Arc::default();
                copy.version = Version::new(v.version.id() + 1, self.tree_type());
                Ok(copy)
            },
            &config.seqno,
            &config.visible_seqno,
        )
//@ END
    }
}
//@ WRAPPER_END

//@ WRAPPER_BEGIN
impl Tree {
    /// wrapper (generated) around the body of `AbstractTree::rotate_memtable` for Tree after the write lock is taken
    /// (`version_history_lock` is what the guard derefs to)
    fn rotate_body(&self, version_history_lock: &mut SuperVersions) -> (r: Option<Arc<Memtable>>)
        requires old(version_history_lock).h@.len() > 0
        ensures ({ let o = old(version_history_lock).h@.last(); let h1 = final(version_history_lock).h@;
            // nothing to rotate: the history is untouched
            (r is None ==> o.active_memtable.items.len() == 0 && h1 == old(version_history_lock).h@)
            // rotated: the newest entry is *replaced* (no new entry, so no snapshot resolves differently), same seqno, same version;
            // the old active memtable is returned and becomes the newest (last) sealed memtable, the new active memtable is empty
            && (r is Some ==> r->Some_0 == o.active_memtable && o.active_memtable.items.len() > 0
                && h1.len() == old(version_history_lock).h@.len() && h1.drop_last() == old(version_history_lock).h@.drop_last()
                && h1.last().seqno == o.seqno && h1.last().version == o.version
                && h1.last().sealed_memtables.v == o.sealed_memtables.v.push(o.active_memtable.id)
                && h1.last().active_memtable.items.len() == 0) }),
    {
//@ FROM src/tree/mod.rs :: AbstractTree for Tree :: fn rotate_memtable :: STMTS `let super_version =` .. `Some ( yanked_memtable )` :: OBL C02.13, C01.19
        let super_version = version_history_lock.latest_version();

        if super_version.active_memtable.is_empty() {
            return None;
        }

        let yanked_memtable = super_version.active_memtable;

        let mut copy = version_history_lock.latest_version();
        copy.active_memtable = Arc::new(Memtable::new(self.memtable_id_counter.next()));
        copy.sealed_memtables =
            Arc::new(super_version.sealed_memtables.add(yanked_memtable.clone()));

        // Rotate does not modify the memtable so it cannot break snapshots
        copy.seqno = super_version.seqno;

        version_history_lock.replace_latest_version(copy);

        Some(yanked_memtable)
//@ END
    }
}
//@ WRAPPER_END

} // verus!
fn main() {}
