//@ UNIT tree_recover
// Tree::recover (src/tree/mod.rs), final part: a reopened tree hands out table ids strictly above every table id of the
// recovered version, and starts its history with exactly the recovered version.  Obligation C04.11
use vstd::prelude::*;
use vstd::std_specs::iter::*;
use std::sync::Arc;
verus! {

global size_of usize == 8;

type TableId = u64;
type TreeId = u64;
//@ INCLUDE prelude/seqiter.rs

struct Table { id: TableId }
impl Table { fn id(&self) -> (r: TableId) ensures r == self.id { self.id } }
struct Version { ghost tables: Seq<Table> }
impl Version {
    /// Version::iter_tables: every table of every level
    #[verifier::external_body]
    fn iter_tables(&self) -> (r: SeqIter<&Table>) ensures r.rest().len() == self.tables.len(), forall|i: int| 0 <= i < self.tables.len() ==> *(#[trigger] r.rest()[i]) == self.tables[i],
            forall|i: int| 0 <= i < self.tables.len() ==> #[trigger] self.tables[i] == *r.rest()[i]
    { unimplemented!() }
}
/// SequenceNumberCounter::new(prev): the next number handed out is `prev`
struct SequenceNumberCounter { ghost next: u64 }
impl SequenceNumberCounter {
    #[verifier::external_body] fn new(prev: u64) -> (r: Self) ensures r.next == prev { unimplemented!() }
    #[verifier::external_body] fn default() -> (r: Self) ensures r.next == 0 { unimplemented!() }
}
struct SuperVersions { ghost first: Version }
impl SuperVersions { #[verifier::external_body] fn new(v: Version) -> (r: Self) ensures r.first == v { unimplemented!() } }
#[verifier::external_body] struct StopSignal { p: u8 }
impl StopSignal { #[verifier::external_body] fn default() -> (r: Self) { unimplemented!() } }
#[verifier::external_body] struct Config { p: u8 }
#[verifier::external_body] struct CompactionState { p: u8 }
impl CompactionState { #[verifier::external_body] fn default() -> (r: Self) { unimplemented!() } }
/// RwLock / Mutex wrappers keep what they are given
struct RwLock<T> { v: T }
impl<T> RwLock<T> { fn new(v: T) -> (r: Self) ensures r.v == v { RwLock { v } } }
struct Mutex<T> { v: T }
impl<T> Mutex<T> { fn new(v: T) -> (r: Self) ensures r.v == v { Mutex { v } } }
struct UnitLock { p: u8 }
impl UnitLock { fn default() -> (r: Self) { UnitLock { p: 0 } } }

//@ FROM src/tree/inner.rs :: - :: struct TreeInner
//@ SUBST `RwLock < ( ) >` ==> `UnitLock`
//@ SUBST `Mutex < ( ) >` ==> `UnitLock`
struct TreeInner {
    id: TreeId,

    memtable_id_counter: SequenceNumberCounter,

    table_id_counter: SequenceNumberCounter,

    blob_file_id_counter: SequenceNumberCounter,

    version_history: Arc<RwLock<SuperVersions>>,

    compaction_state: Arc<Mutex<CompactionState>>,

    config: Arc<Config>,

    stop_signal: StopSignal,

    major_compaction_lock: UnitLock,

    flush_lock: UnitLock,
}
//@ END

/// id `x` is not used by any table of the version
spec fn fresh(v: Version, x: u64) -> bool { forall|i: int| 0 <= i < v.tables.len() ==> (#[trigger] v.tables[i]).id < x }

//@ WRAPPER_BEGIN
/// wrapper (generated) around the statements of Tree::recover that build the TreeInner from the recovered version
fn build_inner(tree_id: TreeId, version: Version, config: Config) -> (inner: TreeInner)
    requires forall|i: int| 0 <= i < version.tables.len() ==> (#[trigger] version.tables[i]).id < u64::MAX
    ensures fresh(version, inner.table_id_counter.next), inner.version_history.v.first == version, inner.id == tree_id
{
//@ FROM src/tree/mod.rs :: impl Tree :: fn recover :: STMTS `let highest_table_id =` .. `let inner =` :: OBL C04.11
//@ SUBST `. map ( Table :: id )` ==> `.map(|t: &Table| -> (x: u64) ensures x == t.id { t.id() })`
//@ SUBST `RwLock :: default ( )` ==> `UnitLock::default()`
//@ SUBST `Mutex :: default ( )` ==> `UnitLock::default()`
    let highest_table_id = version
        .iter_tables()
        .map(|t: &Table| -> (x: u64) ensures x == t.id { t.id() })
        .max()
        .unwrap_or_default();
    /*+*/proof {
        assert forall|i: int| 0 <= i < version.tables.len() implies (#[trigger] version.tables[i]).id <= highest_table_id by { }
    }/*-*/

    let inner = TreeInner {
        id: tree_id,
        memtable_id_counter: SequenceNumberCounter::new(1),
        table_id_counter: SequenceNumberCounter::new(highest_table_id + 1),
        blob_file_id_counter: SequenceNumberCounter::default(),
        version_history: Arc::new(RwLock::new(SuperVersions::new(version))),
        stop_signal: StopSignal::default(),
        config: Arc::new(config),
        major_compaction_lock: UnitLock::default(),
        flush_lock: UnitLock::default(),
        compaction_state: Arc::new(Mutex::new(CompactionState::default())),
    };
    /*+*/inner/*-*/
//@ END
}
//@ WRAPPER_END

}
fn main() {}
