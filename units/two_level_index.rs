//@ UNIT two_level_index
// Partitioned (two-level) block index (src/table/block_index/two_level.rs), forward iteration: with the index split into partitions
// addressed by a top-level index, `Iter::next` after `seek_lower(key, seqno)` yields exactly the data-block handles a full index would
// yield - every handle from the first one that does not end before (key, seqno) onward, in order, none skipped at partition borders;
// a partition that fails to load surfaces as an error.  Obligations C11.10, C01.34
use vstd::prelude::*;
use core::cmp::Ordering;

//@ FROM src/lib.rs :: - :: macro_rules fail_iter
//@ SUBST `e . into ( )` ==> `e`
macro_rules! fail_iter {
    ($e:expr) => {
        match $e {
            Ok(v) => v,
            Err(e) => return Some(Err(e)),
        }
    };
}
//@ END

verus! {
global size_of usize == 8;
type SeqNo = u64;

// ---------------- prelude (TRUSTED) ----------------
#[verifier::external_body] struct Error { p: u8 }
#[derive(Copy, Clone, PartialEq, Eq, Structural)] enum BlockType { Data, Index, Filter, Meta }
/// a block handle with the (end key, seqno) of the last entry it covers; keys are ranks in the byte-string order
#[derive(Copy, Clone, PartialEq, Eq, Structural)]
pub struct KeyedBlockHandle { pub end_key: int, pub seqno: SeqNo, pub offset: u64 }
#[derive(Copy, Clone, PartialEq, Eq, Structural)]
pub struct BlockHandle { pub offset: u64 }
impl KeyedBlockHandle { fn into_inner(self) -> (r: BlockHandle) ensures r.offset == self.offset { BlockHandle { offset: self.offset } } }
/// the block ends before the sought (key, seqno) (index_seek, C01.25)
pub open spec fn ends_before(h: KeyedBlockHandle, key: int, seqno: SeqNo) -> bool { h.end_key < key || (h.end_key == key && h.seqno >= seqno) }
pub open spec fn sorted(hs: Seq<KeyedBlockHandle>) -> bool {
    forall|i: int, j: int| 0 <= i <= j < hs.len() ==> #[trigger] hs[i].end_key < #[trigger] hs[j].end_key || (hs[i].end_key == hs[j].end_key && hs[i].seqno >= hs[j].seqno)
}
/// an index block: the handles it holds
struct IndexBlock { ghost hs: Seq<KeyedBlockHandle> }
impl IndexBlock {
    #[verifier::external_body] fn clone(&self) -> (r: Self) ensures r == *self { unimplemented!() }
    #[verifier::external_body] fn new(b: Block) -> (r: Self) ensures r.hs == b.hs { unimplemented!() }
}
struct Block { ghost hs: Seq<KeyedBlockHandle> }
/// a byte-string key: its rank
#[verifier::external_body] struct UserKey { p: u8 }
impl UserKey { uninterp spec fn rank(&self) -> int; }
#[verifier::external_body] struct KeyBytes { p: u8 }
impl KeyBytes { uninterp spec fn rank(&self) -> int; }
/// OwnedIndexBlockIter (self_cell over index_block::Iter, unit index_seek C01.25): a cursor [lo, hi) over the block's handles
struct OwnedIndexBlockIter { ghost hs: Seq<KeyedBlockHandle>, ghost lo: int, ghost hi: int }
impl OwnedIndexBlockIter {
    spec fn wf(&self) -> bool { 0 <= self.lo <= self.hs.len() && 0 <= self.hi <= self.hs.len() }
    spec fn rest(&self) -> Seq<KeyedBlockHandle> { if self.lo < self.hi { self.hs.subrange(self.lo, self.hi) } else { Seq::empty() } }
    #[verifier::external_body]
    fn new_iter(block: IndexBlock) -> (r: Self) ensures r.hs == block.hs, r.lo == 0, r.hi == block.hs.len() { unimplemented!() }
    /// seek_lower (index_block::Iter::seek): skips exactly the handles that end before (key, seqno); false iff all do
    #[verifier::external_body]
    fn seek_lower(&mut self, key: &UserKey, seqno: SeqNo) -> (r: bool)
        requires old(self).wf(), old(self).lo == 0, sorted(old(self).hs)
        ensures final(self).wf(), final(self).hs == old(self).hs,
            forall|i: int| 0 <= i < final(self).lo ==> ends_before(#[trigger] old(self).hs[i], key.rank(), seqno),
            r ==> final(self).lo < old(self).hs.len() && !ends_before(old(self).hs[final(self).lo], key.rank(), seqno) && final(self).hi == old(self).hi,
            !r ==> final(self).lo == old(self).hs.len(),
    { unimplemented!() }
    #[verifier::external_body]
    fn next(&mut self) -> (r: Option<KeyedBlockHandle>)
        requires old(self).wf()
        ensures final(self).wf(), final(self).hs == old(self).hs, final(self).hi == old(self).hi,
            old(self).lo < old(self).hi ==> r == Some(old(self).hs[old(self).lo]) && final(self).lo == old(self).lo + 1,
            old(self).lo >= old(self).hi ==> r is None && final(self).lo == old(self).lo,
    { unimplemented!() }
}
/// the partitions of the index: partition p holds parts[p]; the top-level index holds one handle per partition whose
/// (end key, seqno) are those of the partition's last handle and whose offset addresses the partition block
pub open spec fn flat(parts: Seq<Seq<KeyedBlockHandle>>, from: int) -> Seq<KeyedBlockHandle> decreases parts.len() - from
{ if from >= parts.len() || from < 0 { Seq::empty() } else { parts[from] + flat(parts, from + 1) } }
pub open spec fn tli_ok(tli: Seq<KeyedBlockHandle>, parts: Seq<Seq<KeyedBlockHandle>>) -> bool {
    &&& tli.len() == parts.len()
    &&& forall|p: int| 0 <= p < parts.len() ==> (#[trigger] parts[p]).len() > 0 && tli[p].end_key == parts[p].last().end_key && tli[p].seqno == parts[p].last().seqno && sorted(parts[p])
    &&& sorted(flat(parts, 0)) && sorted(tli)
    &&& forall|p: int, q: int| 0 <= p < parts.len() && 0 <= q < parts.len() && tli[p].offset == tli[q].offset ==> p == q
}
/// util::load_block for an index partition (unit block_io: checksums verified, C10.3): Ok only with the partition the handle addresses
#[verifier::external_body]
fn load_partition(h: &BlockHandle, block_type: BlockType, Ghost(tli): Ghost<Seq<KeyedBlockHandle>>, Ghost(parts): Ghost<Seq<Seq<KeyedBlockHandle>>>) -> (r: Result<Block, Error>)
    ensures r is Ok ==> forall|p: int| 0 <= p < parts.len() && tli[p].offset == h.offset ==> r->Ok_0.hs == parts[p]
{ unimplemented!() }

/// index of the first handle from i on that does not end before (key, seqno)
spec fn first_nb(f: Seq<KeyedBlockHandle>, key: int, seqno: SeqNo, i: int) -> int decreases f.len() - i
{ if i < 0 || i >= f.len() || !ends_before(f[i], key, seqno) { i } else { first_nb(f, key, seqno, i + 1) } }
/// a + b with everything in a ending before and b starting with a handle that does not: dropping the leading 'before' handles leaves b
proof fn lemma_first_nb(a: Seq<KeyedBlockHandle>, b: Seq<KeyedBlockHandle>, key: int, seqno: SeqNo, i: int)
    requires 0 <= i <= a.len(), forall|x: int| 0 <= x < a.len() ==> ends_before(#[trigger] a[x], key, seqno), b.len() > 0 ==> !ends_before(b[0], key, seqno)
    ensures first_nb(a + b, key, seqno, i) == a.len()
    decreases a.len() - i
{
    let f = a + b;
    if i < a.len() { assert(f[i] == a[i]); lemma_first_nb(a, b, key, seqno, i + 1); }
    else if b.len() > 0 { assert(f[i] == b[0]); }
}
/// the handles of partitions 0 .. p
spec fn flat_upto(parts: Seq<Seq<KeyedBlockHandle>>, p: int) -> Seq<KeyedBlockHandle> decreases p
{ if p <= 0 { Seq::empty() } else { flat_upto(parts, p - 1) + parts[p - 1] } }
proof fn lemma_flat_split(parts: Seq<Seq<KeyedBlockHandle>>, p: int)
    requires 0 <= p <= parts.len()
    ensures flat(parts, 0) == flat_upto(parts, p) + flat(parts, p)
    decreases p
{
    if p == 0 { assert(flat_upto(parts, 0) + flat(parts, 0) =~= flat(parts, 0)); }
    else {
        lemma_flat_split(parts, p - 1);
        assert(flat(parts, p - 1) == parts[p - 1] + flat(parts, p));
        assert(flat_upto(parts, p - 1) + (parts[p - 1] + flat(parts, p)) =~= (flat_upto(parts, p - 1) + parts[p - 1]) + flat(parts, p));
    }
}
/// in a sorted sequence 'ends before' is downward closed
proof fn lemma_before_down(f: Seq<KeyedBlockHandle>, i: int, j: int, key: int, seqno: SeqNo)
    requires sorted(f), 0 <= i <= j < f.len(), ends_before(f[j], key, seqno)
    ensures ends_before(f[i], key, seqno)
{}
/// every handle of the partitions before p ends before, given that their last handles (the top-level entries) do
proof fn lemma_upto_before(tli: Seq<KeyedBlockHandle>, parts: Seq<Seq<KeyedBlockHandle>>, p: int, key: int, seqno: SeqNo)
    requires tli_ok(tli, parts), 0 <= p <= parts.len(), forall|q: int| 0 <= q < p ==> ends_before(#[trigger] tli[q], key, seqno)
    ensures forall|x: int| 0 <= x < flat_upto(parts, p).len() ==> ends_before(#[trigger] flat_upto(parts, p)[x], key, seqno)
    decreases p
{
    if p > 0 {
        lemma_upto_before(tli, parts, p - 1, key, seqno);
        let a = flat_upto(parts, p - 1); let b = parts[p - 1];
        assert(ends_before(tli[p - 1], key, seqno));
        assert forall|x: int| 0 <= x < (a + b).len() implies ends_before(#[trigger] (a + b)[x], key, seqno) by {
            if x >= a.len() { let y = x - a.len(); lemma_before_down(b, y, b.len() - 1, key, seqno); }
        }
    }
}
/// the fields of two_level::Iter that forward iteration touches (R8: table id, path, caches and compression only feed load_block)
struct Iter {
    tli_block: IndexBlock,
    tli: Option<OwnedIndexBlockIter>,

    lo_consumer: Option<OwnedIndexBlockIter>,
    hi_consumer: Option<OwnedIndexBlockIter>,

    lo: Option<(UserKey, SeqNo)>,
    hi: Option<(UserKey, SeqNo)>,
}
//@ SUBST `OwnedIndexBlockIter :: new ( self . tli_block . clone ( ) , IndexBlock :: iter )` ==> `OwnedIndexBlockIter::new_iter(self.tli_block.clone())`
//@ SUBST `OwnedIndexBlockIter :: new ( index_block , IndexBlock :: iter )` ==> `OwnedIndexBlockIter::new_iter(index_block)`
//@ SUBST `load_block ( self . table_id , & self . path , & self . file_accessor , & self . cache , & handle . into_inner ( ) , BlockType :: Index , self . compression , )` ==> `load_partition(&handle.into_inner(), BlockType::Index, g_tli__, g_parts__)`
impl Iter {
    /// forward-only use: no upper bound was set and nothing was taken from the back
    spec fn fwd(&self) -> bool { self.hi is None && self.hi_consumer is None }
    /// the handles still to come, given the partitions
    spec fn remaining(&self, parts: Seq<Seq<KeyedBlockHandle>>) -> Seq<KeyedBlockHandle> {
        (if self.lo_consumer is Some { self.lo_consumer->Some_0.rest() } else { Seq::empty() })
        + (if self.tli is Some { flat(parts, self.tli->Some_0.lo) } else { Seq::empty() })
    }
    spec fn inv(&self, tli: Seq<KeyedBlockHandle>, parts: Seq<Seq<KeyedBlockHandle>>) -> bool {
        &&& tli_ok(tli, parts) && self.tli_block.hs == tli && self.fwd()
        &&& self.tli is Some ==> self.tli->Some_0.wf() && self.tli->Some_0.hs == tli && self.tli->Some_0.hi == tli.len()
        &&& self.lo_consumer is Some ==> self.lo_consumer->Some_0.wf() && self.tli is Some
    }

//@ FROM src/table/block_index/two_level.rs :: impl Iter :: fn init_tli :: OBL C11.10, C01.34
    fn init_tli(&mut self/*+*/, Ghost(tli): Ghost<Seq<KeyedBlockHandle>>, Ghost(parts): Ghost<Seq<Seq<KeyedBlockHandle>>>/*-*/) -> /*+*/(r:/*-*/ bool/*+*/)
        requires old(self).inv(tli, parts), old(self).tli is None, old(self).lo_consumer is None
        ensures final(self).lo == old(self).lo, final(self).hi == old(self).hi, final(self).tli_block == old(self).tli_block, final(self).lo_consumer is None, final(self).hi_consumer is None,
            r ==> final(self).inv(tli, parts) && final(self).tli is Some
                // every partition skipped ends before the sought (key, seqno); the first one kept does not
                && (old(self).lo is Some ==> (forall|p: int| 0 <= p < final(self).tli->Some_0.lo ==> ends_before(#[trigger] tli[p], old(self).lo->Some_0.0.rank(), old(self).lo->Some_0.1))
                    && final(self).tli->Some_0.lo < tli.len() && !ends_before(tli[final(self).tli->Some_0.lo], old(self).lo->Some_0.0.rank(), old(self).lo->Some_0.1))
                && (old(self).lo is None ==> final(self).tli->Some_0.lo == 0),
            // false: every partition ends before it
            !r ==> final(self).tli is None && old(self).lo is Some && forall|p: int| 0 <= p < tli.len() ==> ends_before(#[trigger] tli[p], old(self).lo->Some_0.0.rank(), old(self).lo->Some_0.1),/*-*/
    {
        let mut iter = OwnedIndexBlockIter::new_iter(self.tli_block.clone());

        if let Some((lo_key, lo_seqno)) = &self.lo {
            if !iter.seek_lower(lo_key, *lo_seqno) {
                return false;
            }
        }
        if let Some((hi_key, hi_seqno)) = &self.hi {
            if !iter.seek_upper(hi_key, *hi_seqno) {
                return false;
            }
        }

        self.tli = Some(iter);

        true
    }
//@ END
}
impl Iter {
    /// the handles still to be yielded
    spec fn pending(&self, parts: Seq<Seq<KeyedBlockHandle>>) -> Seq<KeyedBlockHandle> {
        let f = flat(parts, 0);
        if self.tli is None { if self.lo is Some { f.skip(first_nb(f, self.lo->Some_0.0.rank(), self.lo->Some_0.1, 0)) } else { f } }
        else { self.remaining(parts) }
    }
    /// once started, nothing that is still to come ends before the bound (so later partitions are not trimmed)
    spec fn started_ok(&self, parts: Seq<Seq<KeyedBlockHandle>>) -> bool {
        self.tli is Some && self.lo is Some ==> forall|x: int| 0 <= x < self.remaining(parts).len() ==> !ends_before(#[trigger] self.remaining(parts)[x], self.lo->Some_0.0.rank(), self.lo->Some_0.1)
    }

//@ FROM src/table/block_index/two_level.rs :: impl Iterator for Iter :: fn next :: OBL C11.10, C01.34
//@ SUBST `Self :: Item` ==> `Result<KeyedBlockHandle, Error>`
//@ SUBST `self . init_tli ( )` ==> `self.init_tli(Ghost(gtli), Ghost(parts))`
//@ SUBST `. map ( Ok )` ==> `.map(|h__: KeyedBlockHandle| Ok(h__))`
    fn next(&mut self/*+*/, Ghost(gtli): Ghost<Seq<KeyedBlockHandle>>, Ghost(parts): Ghost<Seq<Seq<KeyedBlockHandle>>>/*-*/) -> /*+*/(r:/*-*/ Option<Result<KeyedBlockHandle, Error>>/*+*/)
        requires old(self).inv(gtli, parts), old(self).started_ok(parts), old(self).tli is None ==> old(self).lo_consumer is None
        ensures
            // the end is reported only when nothing is pending
            r is None ==> old(self).pending(parts).len() == 0,
            // a handle: exactly the next pending one, and the rest stays pending
            r matches Some(Ok(h)) ==> old(self).pending(parts).len() > 0 && h == old(self).pending(parts)[0]
                && final(self).inv(gtli, parts) && final(self).started_ok(parts) && final(self).tli is Some && final(self).lo == old(self).lo
                && final(self).pending(parts) == old(self).pending(parts).skip(1),/*-*/
    {
        /*+*/let ghost pend = self.pending(parts); let ghost f = flat(parts, 0);/*-*/
        if let Some(lo_block) = &mut self.lo_consumer {
            /*+*/let ghost r0 = lo_block.rest();/*-*/
            if let Some(item) = lo_block.next() {
                /*+*/proof {
                    assert(r0[0] == item); assert(lo_block.rest() =~= r0.skip(1));
                    assert(self.remaining(parts) =~= pend.skip(1));
                    assert forall|x: int| 0 <= x < self.remaining(parts).len() && self.lo is Some implies !ends_before(#[trigger] self.remaining(parts)[x], self.lo->Some_0.0.rank(), self.lo->Some_0.1) by { assert(self.remaining(parts)[x] == pend[x + 1]); }
                }/*-*/
                return Some(Ok(item));
            }
            /*+*/proof { assert(r0.len() == 0); }/*-*/
        }
        /*+*/let ghost fresh = self.tli is None;/*-*/

        if self.tli.is_none() && !self.init_tli(Ghost(gtli), Ghost(parts)) {
            /*+*/proof {
                // every partition ends before the bound: so does every handle
                let key = self.lo->Some_0.0.rank(); let sq = self.lo->Some_0.1;
                lemma_flat_split(parts, parts.len() as int);
                lemma_upto_before(gtli, parts, parts.len() as int, key, sq);
                assert(flat(parts, parts.len() as int) =~= Seq::<KeyedBlockHandle>::empty());
                lemma_first_nb(flat_upto(parts, parts.len() as int), Seq::empty(), key, sq, 0);
                assert(f =~= flat_upto(parts, parts.len() as int) + Seq::<KeyedBlockHandle>::empty());
            }/*-*/
            return None;
        }

        if let Some(tli) = &mut self.tli {
            /*+*/let ghost p = tli.lo;/*-*/
            let next_lowest_block = tli.next();

            if let Some(handle) = next_lowest_block {
                /*+*/proof { assert(handle == gtli[p]); assert(flat(parts, p) == parts[p] + flat(parts, p + 1)); }
                let g_tli__: Ghost<Seq<KeyedBlockHandle>> = Ghost(gtli); let g_parts__: Ghost<Seq<Seq<KeyedBlockHandle>>> = Ghost(parts);/*-*/
                let block = fail_iter!(load_partition(&handle.into_inner(), BlockType::Index, g_tli__, g_parts__));
                let index_block = IndexBlock::new(block);

                let mut iter = OwnedIndexBlockIter::new_iter(index_block);
                /*+*/proof { assert(iter.hs == parts[p]); }/*-*/

                if let Some((lo_key, lo_seqno)) = &self.lo {
                    if !iter.seek_lower(lo_key, *lo_seqno) {
                        /*+*/proof {
                            // cannot happen: the partition's last handle does not end before the bound
                            let key = lo_key.rank(); let sq = *lo_seqno;
                            if fresh { assert(!ends_before(gtli[p], key, sq)); assert(ends_before(parts[p][parts[p].len() - 1], key, sq)); }
                            else { assert(pend[0] == parts[p][0]); assert(ends_before(parts[p][0], key, sq)); }
                        }/*-*/
                        return None;
                    }
                }
                if let Some((hi_key, hi_seqno)) = &self.hi {
                    if !iter.seek_upper(hi_key, *hi_seqno) {
                        return None;
                    }
                }
                /*+*/let ghost j = iter.lo;
                proof {
                    if self.lo is Some {
                        let key = self.lo->Some_0.0.rank(); let sq = self.lo->Some_0.1;
                        if fresh {
                            // pending = F without its leading 'before' handles = partition p from j on, then the later partitions
                            lemma_flat_split(parts, p);
                            lemma_upto_before(gtli, parts, p, key, sq);
                            let a = flat_upto(parts, p) + parts[p].subrange(0, j); let b = parts[p].subrange(j, parts[p].len() as int) + flat(parts, p + 1);
                            assert(f =~= a + b);
                            assert forall|x: int| 0 <= x < a.len() implies ends_before(#[trigger] a[x], key, sq) by {
                                if x >= flat_upto(parts, p).len() { assert(a[x] == parts[p][x - flat_upto(parts, p).len()]); }
                            }
                            assert(b[0] == parts[p][j]);
                            lemma_first_nb(a, b, key, sq, 0);
                            assert(pend =~= b);
                        } else {
                            assert(pend =~= parts[p] + flat(parts, p + 1));
                            assert(pend[0] == parts[p][0]);
                            assert(j == 0) by { if j > 0 { assert(ends_before(parts[p][0], key, sq)); } }
                            assert(parts[p].subrange(0, parts[p].len() as int) =~= parts[p]);
                        }
                    } else {
                        if fresh { assert(p == 0); }
                        assert(pend =~= parts[p] + flat(parts, p + 1));
                        assert(parts[p].subrange(0, parts[p].len() as int) =~= parts[p]);
                    }
                    assert(pend =~= parts[p].subrange(j, parts[p].len() as int) + flat(parts, p + 1));
                }/*-*/

                let next_item = iter.next().map(|h__: KeyedBlockHandle| /*+*/-> (o: Result<KeyedBlockHandle, Error>) ensures o == Ok::<KeyedBlockHandle, Error>(h__) {/*-*/ Ok(h__) /*+*/}/*-*/);

                self.lo_consumer = Some(iter);

                if let Some(item) = next_item {
                    /*+*/proof {
                        assert(self.remaining(parts) =~= pend.skip(1));
                        assert forall|x: int| 0 <= x < self.remaining(parts).len() && self.lo is Some implies !ends_before(#[trigger] self.remaining(parts)[x], self.lo->Some_0.0.rank(), self.lo->Some_0.1) by {
                            assert(self.remaining(parts)[x] == pend[x + 1]);
                            let key = self.lo->Some_0.0.rank(); let sq = self.lo->Some_0.1;
                            if fresh { lemma_flat_split(parts, 0); assert(sorted(f)); lemma_pending_nb(f, first_nb(f, key, sq, 0), x + 1, key, sq); }
                        }
                    }/*-*/
                    return Some(item);
                }
            }
            /*+*/proof { assert(flat(parts, p) =~= Seq::<KeyedBlockHandle>::empty()) by { if p < parts.len() { } } }/*-*/
        }

        if let Some(hi_block) = &mut self.hi_consumer {
            if let Some(item) = hi_block.next() {
                return Some(Ok(item));
            }
        }

        None
    }
//@ END
}
/// in a sorted sequence everything after the first handle that does not end before the bound does not end before it either
proof fn lemma_pending_nb(f: Seq<KeyedBlockHandle>, s: int, x: int, key: int, seqno: SeqNo)
    requires sorted(f), 0 <= s, s + x < f.len(), x >= 0, s == first_nb(f, key, seqno, 0)
    ensures !ends_before(f[s + x], key, seqno)
{
    lemma_first_nb_props(f, key, seqno, 0);
    if ends_before(f[s + x], key, seqno) { lemma_before_down(f, s, s + x, key, seqno); }
}
proof fn lemma_first_nb_props(f: Seq<KeyedBlockHandle>, key: int, seqno: SeqNo, i: int)
    requires 0 <= i <= f.len()
    ensures i <= first_nb(f, key, seqno, i) <= f.len(), first_nb(f, key, seqno, i) < f.len() ==> !ends_before(f[first_nb(f, key, seqno, i)], key, seqno)
    decreases f.len() - i
{ if i < f.len() && ends_before(f[i], key, seqno) { lemma_first_nb_props(f, key, seqno, i + 1); } }
impl OwnedIndexBlockIter {
    /// seek_upper: not used in forward-only iteration (hi is None)
    #[verifier::external_body]
    fn seek_upper(&mut self, key: &UserKey, seqno: SeqNo) -> (r: bool) requires false { unimplemented!() }
}
}
fn main() {}
