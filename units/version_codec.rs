//@ UNIT version_codec
// The version file round trip: what `Version::encode_into` writes into the sections `tables`, `blob_files`, `tree_type` (and hands to the
// gc statistics codec), `version::recovery::recover` reads back as exactly the same structure - levels, runs per level, tables per run in
// order, each table's (id, checksum, global seqno); the blob files (id, checksum), sorted by id; the tree type.
// Sections are modelled as sequences of typed fields (R13): byteorder's write_uN / read_uN are inverse on a field.  Obligations C04.14, C07.15
use vstd::prelude::*;
use vstd::std_specs::iter::*;
verus! {
global size_of usize == 8;
pub type VersionId = u64;
pub type TableId = u64;
pub type BlobFileId = u64;
pub type SeqNo = u64;

// ---------------- prelude (TRUSTED) ----------------
pub enum Error { Io, Unrecoverable, InvalidTag((&'static str, u8)), InvalidHeader(&'static str), ChecksumMismatch { got: Checksum, expected: Checksum } }
/// a typed field of a section: byteorder writes it, byteorder reads it back (R13); `Bytes` is an opaque run of bytes
pub enum Field { U8(u8), U32(u32), U64(u64), U128(u128), Bytes }
#[derive(PartialEq, Eq, Structural, Clone, Copy)]
pub enum SectionName { FormatVersion, CrateVersion, TreeType, LevelCount, FilterHashType, Tables, BlobFiles, BlobGcStats }
pub type Sections = Seq<(SectionName, Seq<Field>)>;
/// sfa: the first section of that name
pub open spec fn lookup(a: Sections, name: SectionName) -> Option<Seq<Field>> decreases a.len()
{ if a.len() == 0 { None } else if a[0].0 == name { Some(a[0].1) } else { lookup(a.skip(1), name) } }

// ---- the image of a version ----
pub ghost struct TRec { pub id: u64, pub checksum: u128, pub seqno: u64 }
pub open spec fn table_fields(t: TRec) -> Seq<Field> { seq![Field::U64(t.id), Field::U8(0), Field::U128(t.checksum), Field::U64(t.seqno)] }
pub open spec fn tables_from(r: Seq<TRec>, k: int) -> Seq<Field> decreases r.len() - k
{ if k < 0 || k >= r.len() { Seq::empty() } else { table_fields(r[k]) + tables_from(r, k + 1) } }
pub open spec fn run_fields(r: Seq<TRec>) -> Seq<Field> { seq![Field::U32(r.len() as u32)] + tables_from(r, 0) }
pub open spec fn runs_from(l: Seq<Seq<TRec>>, j: int) -> Seq<Field> decreases l.len() - j
{ if j < 0 || j >= l.len() { Seq::empty() } else { run_fields(l[j]) + runs_from(l, j + 1) } }
pub open spec fn level_fields(l: Seq<Seq<TRec>>) -> Seq<Field> { seq![Field::U8(l.len() as u8)] + runs_from(l, 0) }
pub open spec fn levels_from(v: Seq<Seq<Seq<TRec>>>, i: int) -> Seq<Field> decreases v.len() - i
{ if i < 0 || i >= v.len() { Seq::empty() } else { level_fields(v[i]) + levels_from(v, i + 1) } }
pub open spec fn tables_section(v: Seq<Seq<Seq<TRec>>>) -> Seq<Field> { seq![Field::U8(v.len() as u8)] + levels_from(v, 0) }
/// counts fit their fields (level count and run counts in a byte - encode_into refuses more runs -, table counts in 32 bits)
pub open spec fn counts_fit(v: Seq<Seq<Seq<TRec>>>) -> bool {
    v.len() < 256 && forall|i: int| 0 <= i < v.len() ==> (#[trigger] v[i]).len() < 256 && forall|j: int| 0 <= j < v[i].len() ==> (#[trigger] v[i][j]).len() <= u32::MAX
}
pub ghost struct BRec { pub id: u64, pub checksum: u128 }
pub open spec fn blob_fields(b: BRec) -> Seq<Field> { seq![Field::U64(b.id), Field::U8(0), Field::U128(b.checksum)] }
pub open spec fn blobs_from(b: Seq<BRec>, k: int) -> Seq<Field> decreases b.len() - k
{ if k < 0 || k >= b.len() { Seq::empty() } else { blob_fields(b[k]) + blobs_from(b, k + 1) } }
pub open spec fn blobs_section(b: Seq<BRec>) -> Seq<Field> { seq![Field::U32(b.len() as u32)] + blobs_from(b, 0) }

// ---- reading ----
#[verifier::external_body] pub struct Path { p: u8 }
#[verifier::external_body] pub struct PathBuf { p: u8 }
pub struct VersionFileName { pub id: u64 }
/// stands for `format!("v{id}")` (R12)
pub fn version_file_name(id: u64) -> (r: VersionFileName) ensures r.id == id { VersionFileName { id } }
/// ghost view of the directory: the fields of `current`, and the sections of the version files
pub uninterp spec fn current_fields(folder: &Path) -> Seq<Field>;
pub uninterp spec fn file_sections(folder: &Path, id: u64) -> Sections;
/// what persist_version puts into `current` (unit durability, C05.1 / C10.8): version id, checksum of the version file, checksum type 0
pub open spec fn current_record(id: u64, checksum: u128) -> Seq<Field> { seq![Field::U64(id), Field::U128(checksum), Field::U8(0)] }
pub open spec fn current_id(folder: &Path) -> u64 { current_fields(folder)[0]->U64_0 }
/// `std::fs::File::open(folder.join("current"))` + byteorder reads
#[verifier::external_body]
pub fn open_current(folder: &Path) -> (r: Result<SectionReader, Error>) ensures r is Ok ==> r->Ok_0.rest == current_fields(folder) { unimplemented!() }
impl Path {
    #[verifier::external_body]
    pub fn join(&self, name: VersionFileName) -> (r: PathBuf) ensures r.names(self, name.id) { unimplemented!() }
}
impl PathBuf { pub uninterp spec fn names(&self, folder: &Path, id: u64) -> bool; }
/// std::fs::read + hash128 + Checksum::check (unit recover, C10.5)
#[verifier::external_body] pub fn fs_read(path: &PathBuf) -> (r: Result<Vec<u8>, Error>) { unimplemented!() }
#[verifier::external_body] pub fn hash128_exec(b: &Vec<u8>) -> (r: u128) { unimplemented!() }
#[derive(Copy, Clone, PartialEq, Eq, Structural)]
pub struct Checksum(pub u128);
impl Checksum {
    pub fn from_raw(value: u128) -> (r: Self) ensures r.0 == value { Self(value) }
    pub fn into_u128(self) -> (r: u128) ensures r == self.0 { self.0 }
    #[verifier::external_body] pub fn check(&self, expected: Self) -> (r: Result<(), Error>) { unimplemented!() }
}
pub struct SfaReader { pub ghost secs: Sections }
pub struct Toc { pub ghost secs: Sections }
pub struct TocEntry { pub ghost fields: Seq<Field> }
pub struct SectionReader { pub ghost rest: Seq<Field> }
impl SfaReader {
    #[verifier::external_body]
    pub fn new(path: &PathBuf) -> (r: Result<SfaReader, Error>)
        ensures r is Ok ==> forall|folder: &Path, id: u64| path.names(folder, id) ==> r->Ok_0.secs == #[trigger] file_sections(folder, id)
    { unimplemented!() }
    #[verifier::external_body] pub fn toc(&self) -> (r: &Toc) ensures r.secs == self.secs { unimplemented!() }
}
impl Toc {
    #[verifier::external_body]
    pub fn section(&self, name: SectionName) -> (r: Option<&TocEntry>)
        ensures r is Some == lookup(self.secs, name) is Some, r is Some ==> r->0.fields == lookup(self.secs, name)->0
    { unimplemented!() }
}
impl TocEntry {
    #[verifier::external_body]
    pub fn buf_reader(&self, path: &PathBuf) -> (r: Result<SectionReader, Error>) ensures r is Ok ==> r->Ok_0.rest == self.fields { unimplemented!() }
}
impl SectionReader {
    /// byteorder reads: a field of the width asked for is returned as written; at the end of the section the read fails
    #[verifier::external_body] pub fn read_u8(&mut self) -> (r: Result<u8, Error>)
        ensures r is Ok ==> old(self).rest.len() > 0, r is Ok && old(self).rest[0] is U8 ==> r->Ok_0 == old(self).rest[0]->U8_0 && final(self).rest == old(self).rest.skip(1) { unimplemented!() }
    #[verifier::external_body] pub fn read_u32_le(&mut self) -> (r: Result<u32, Error>)
        ensures r is Ok ==> old(self).rest.len() > 0, r is Ok && old(self).rest[0] is U32 ==> r->Ok_0 == old(self).rest[0]->U32_0 && final(self).rest == old(self).rest.skip(1) { unimplemented!() }
    #[verifier::external_body] pub fn read_u64_le(&mut self) -> (r: Result<u64, Error>)
        ensures r is Ok ==> old(self).rest.len() > 0, r is Ok && old(self).rest[0] is U64 ==> r->Ok_0 == old(self).rest[0]->U64_0 && final(self).rest == old(self).rest.skip(1) { unimplemented!() }
    #[verifier::external_body] pub fn read_u128_le(&mut self) -> (r: Result<u128, Error>)
        ensures r is Ok ==> old(self).rest.len() > 0, r is Ok && old(self).rest[0] is U128 ==> r->Ok_0 == old(self).rest[0]->U128_0 && final(self).rest == old(self).rest.skip(1) { unimplemented!() }
}
#[derive(Clone, Copy, PartialEq, Eq, Structural)]
pub enum TreeType { Standard, Blob }
/// the gc statistics and their codec (own round trip: C04.3)
pub struct FragmentationMap { pub ghost g: int }
pub uninterp spec fn gc_fields(g: int) -> Seq<Field>;
impl FragmentationMap {
    #[verifier::external_body]
    pub fn decode_from(reader: &mut SectionReader) -> (r: Result<FragmentationMap, Error>)
        ensures r is Ok ==> forall|g: int| old(reader).rest == #[trigger] gc_fields(g) ==> r->Ok_0.g == g
    { unimplemented!() }
}
/// `v.sort_by_key(|(id, _)| *id)`: a permutation of the input, ascending by id
#[verifier::external_body]
pub fn sort_by_id(v: &mut Vec<(BlobFileId, Checksum)>)
    ensures final(v)@.to_multiset() == old(v)@.to_multiset(), forall|a: int, b: int| 0 <= a < b < final(v)@.len() ==> final(v)@[a].0 <= final(v)@[b].0
{ }

//@ SUBST `crate :: Error` ==> `Error`

//@ FROM src/version/recovery.rs :: - :: fn get_current_version :: OBL C04.14
//@ SUBST `crate :: Result < ( VersionId , Checksum ) >` ==> `Result<(VersionId, Checksum), Error>`
//@ SUBST `use byteorder :: { LittleEndian , ReadBytesExt } ;` ==> ``
//@ SUBST `std :: fs :: File :: open ( folder . join ( CURRENT_VERSION_FILE ) ) ?` ==> `open_current(folder)?`
//@ SUBST `folder : & std :: path :: Path` ==> `folder: &Path`
//@ SUBST `read_u64 :: < LittleEndian >` ==> `read_u64_le`
//@ SUBST `read_u128 :: < LittleEndian >` ==> `read_u128_le`
fn get_current_version(folder: &Path) -> /*+*/(r:/*-*/ Result<(VersionId, Checksum), Error>/*+*/)
    ensures
        // the record persist_version wrote is read back as it is: version id and version-file checksum
        r is Ok ==> forall|id: u64, cs: u128| current_fields(folder) == #[trigger] current_record(id, cs) ==> r->Ok_0 == (id, Checksum(cs)),/*-*/
{

    let mut f = open_current(folder)?;
    /*+*/let ghost x = f.rest;/*-*/

    let id = f.read_u64_le()?;
    let checksum = f.read_u128_le()?;
    let checksum_type = f.read_u8()?;
    /*+*/proof {
        assert forall|i: u64, cs: u128| current_fields(folder) == #[trigger] current_record(i, cs) implies id == i && checksum == cs by {
            assert(x.skip(1)[0] == x[1]); assert(x.skip(1).skip(1)[0] == x[2]);
        }
    }/*-*/

    if checksum_type != 0 {
        return Err(Error::InvalidTag(("ChecksumType", checksum_type)));
    }

    Ok((id, Checksum::from_raw(checksum)))
}
//@ END
//@ FROM src/version/recovery.rs :: - :: struct RecoveredTable
struct RecoveredTable {
    id: TableId,
    checksum: Checksum,
    global_seqno: SeqNo,
}
//@ END
//@ FROM src/version/recovery.rs :: - :: struct Recovery
//@ SUBST `crate :: blob_tree :: FragmentationMap` ==> `FragmentationMap`
struct Recovery {
    tree_type: TreeType,
    curr_version_id: VersionId,
    table_ids: Vec<Vec<Vec<RecoveredTable>>>,
    blob_file_ids: Vec<(BlobFileId, Checksum)>,
    gc_stats: FragmentationMap,
}
//@ END
spec fn trec(t: RecoveredTable) -> TRec { TRec { id: t.id, checksum: t.checksum.0, seqno: t.global_seqno } }
spec fn run_view(r: Vec<RecoveredTable>) -> Seq<TRec> { Seq::new(r@.len(), |k: int| trec(r@[k])) }
spec fn level_view(l: Vec<Vec<RecoveredTable>>) -> Seq<Seq<TRec>> { Seq::new(l@.len(), |j: int| run_view(l@[j])) }
spec fn levels_view(v: Vec<Vec<Vec<RecoveredTable>>>) -> Seq<Seq<Seq<TRec>>> { Seq::new(v@.len(), |i: int| level_view(v@[i])) }
spec fn brec(b: (BlobFileId, Checksum)) -> BRec { BRec { id: b.0, checksum: b.1.0 } }
spec fn blobs_view(b: Seq<(BlobFileId, Checksum)>) -> Seq<BRec> { Seq::new(b.len(), |k: int| brec(b[k])) }
/// `ids` is a reordering of a list that reads, entry by entry, as `b`
spec fn perm_of_image(ids: Seq<(BlobFileId, Checksum)>, b: Seq<BRec>) -> bool { exists|pre: Seq<(BlobFileId, Checksum)>| #[trigger] blobs_view(pre) == b && pre.to_multiset() == ids.to_multiset() }

impl TreeType {
//@ FROM src/config/mod.rs :: impl From < TreeType > for u8 :: fn from :: OBL C04.14
//@ SUBST `-> Self` ==> `-> u8`
    fn from(val: TreeType) -> /*+*/(r:/*-*/ u8/*+*/) ensures r == tt_code(val)/*-*/ {
        match val {
            TreeType::Standard => 0,
            TreeType::Blob => 1,
        }
    }
//@ END
//@ FROM src/config/mod.rs :: impl TryFrom < u8 > for TreeType :: fn try_from :: OBL C04.14
//@ SUBST `Self :: Error` ==> `()`
    fn try_from(value: u8) -> /*+*/(r:/*-*/ Result<Self, ()>/*+*/) ensures forall|t: TreeType| value == tt_code(t) ==> r == Ok::<TreeType, ()>(t)/*-*/ {
        match value {
            0 => Ok(Self::Standard),
            1 => Ok(Self::Blob),
            _ => Err(()),
        }
    }
//@ END
}
pub open spec fn tt_code(t: TreeType) -> u8 { match t { TreeType::Standard => 0, TreeType::Blob => 1 } }

// ---- seq algebra ----
proof fn lemma_tables_step(r: Seq<TRec>, k: int, tail: Seq<Field>)
    requires 0 <= k < r.len()
    ensures (tables_from(r, k) + tail).len() >= 4,
        (tables_from(r, k) + tail)[0] == Field::U64(r[k].id), (tables_from(r, k) + tail)[1] == Field::U8(0),
        (tables_from(r, k) + tail)[2] == Field::U128(r[k].checksum), (tables_from(r, k) + tail)[3] == Field::U64(r[k].seqno),
        (tables_from(r, k) + tail).skip(4) == tables_from(r, k + 1) + tail,
{
    let x = tables_from(r, k) + tail;
    assert(tables_from(r, k) == table_fields(r[k]) + tables_from(r, k + 1));
    assert(x.skip(4) =~= tables_from(r, k + 1) + tail);
}
proof fn lemma_runs_step(l: Seq<Seq<TRec>>, j: int, tail: Seq<Field>)
    requires 0 <= j < l.len()
    ensures (runs_from(l, j) + tail).len() >= 1, (runs_from(l, j) + tail)[0] == Field::U32(l[j].len() as u32),
        (runs_from(l, j) + tail).skip(1) == tables_from(l[j], 0) + (runs_from(l, j + 1) + tail),
{
    assert(runs_from(l, j) == run_fields(l[j]) + runs_from(l, j + 1));
    assert((runs_from(l, j) + tail).skip(1) =~= tables_from(l[j], 0) + (runs_from(l, j + 1) + tail));
}
proof fn lemma_levels_step(v: Seq<Seq<Seq<TRec>>>, i: int)
    requires 0 <= i < v.len()
    ensures levels_from(v, i).len() >= 1, levels_from(v, i)[0] == Field::U8(v[i].len() as u8),
        levels_from(v, i).skip(1) == runs_from(v[i], 0) + levels_from(v, i + 1),
{
    assert(levels_from(v, i) == level_fields(v[i]) + levels_from(v, i + 1));
    assert(levels_from(v, i).skip(1) =~= runs_from(v[i], 0) + levels_from(v, i + 1));
}
proof fn lemma_blobs_step(b: Seq<BRec>, k: int)
    requires 0 <= k < b.len()
    ensures blobs_from(b, k).len() >= 3, blobs_from(b, k)[0] == Field::U64(b[k].id), blobs_from(b, k)[1] == Field::U8(0), blobs_from(b, k)[2] == Field::U128(b[k].checksum),
        blobs_from(b, k).skip(3) == blobs_from(b, k + 1),
{
    assert(blobs_from(b, k) == blob_fields(b[k]) + blobs_from(b, k + 1));
    assert(blobs_from(b, k).skip(3) =~= blobs_from(b, k + 1));
}
proof fn lemma_skip4(x: Seq<Field>) requires x.len() >= 4 ensures x.skip(1).skip(1).skip(1).skip(1) == x.skip(4), x.skip(1)[0] == x[1], x.skip(1).skip(1)[0] == x[2], x.skip(1).skip(1).skip(1)[0] == x[3]
{ assert(x.skip(1).skip(1).skip(1).skip(1) =~= x.skip(4)); }
proof fn lemma_skip3(x: Seq<Field>) requires x.len() >= 3 ensures x.skip(1).skip(1).skip(1) == x.skip(3), x.skip(1)[0] == x[1], x.skip(1).skip(1)[0] == x[2]
{ assert(x.skip(1).skip(1).skip(1) =~= x.skip(3)); }

//@ FROM src/version/recovery.rs :: - :: fn recover :: OBL C04.14, C07.15
//@ SUBST `crate :: Result < Recovery >` ==> `Result<Recovery, Error>`
//@ SUBST `format ! ( "v{curr_version_id}" )` ==> `version_file_name(curr_version_id)`
//@ SUBST `std :: fs :: read` ==> `fs_read`
//@ SUBST `crate :: hash :: hash128` ==> `hash128_exec`
//@ SUBST `. inspect_err ( | _ | { } )` ==> ``
//@ SUBST `sfa :: Reader :: new` ==> `SfaReader::new`
//@ SUBST `b"tables"` ==> `SectionName::Tables`
//@ SUBST `b"blob_files"` ==> `SectionName::BlobFiles`
//@ SUBST `b"blob_gc_stats"` ==> `SectionName::BlobGcStats`
//@ SUBST `b"tree_type"` ==> `SectionName::TreeType`
//@ SUBST `read_u32 :: < LittleEndian >` ==> `read_u32_le`
//@ SUBST `read_u64 :: < LittleEndian >` ==> `read_u64_le`
//@ SUBST `read_u128 :: < LittleEndian >` ==> `read_u128_le`
//@ SUBST `blob_file_ids . sort_by_key ( | ( id , _ ) | * id )` ==> `sort_by_id(&mut blob_file_ids)`
//@ SUBST `debug_assert ! ( blob_file_ids . is_sorted_by_key ( | ( id , _ ) | id ) ) ;` ==> ``
//@ SUBST `crate :: blob_tree :: FragmentationMap` ==> `FragmentationMap`
//@ SUBST `TreeType :: try_from ( byte ) . map_err ( | ( ) | Error :: InvalidHeader ( "TreeType" ) )` ==> `tree_type_from(byte)`
//@ SUBST `for _ in 0 .. level_count {` ==> `for _i in it_l: 0..level_count {`
//@ SUBST `for _ in 0 .. run_count {` ==> `for _j in it_r: 0..run_count {`
//@ SUBST `for _ in 0 .. table_count {` ==> `for _k in it_t: 0..table_count {`
//@ SUBST `for _ in 0 .. blob_file_count {` ==> `for _k in it_b: 0..blob_file_count {`
fn recover(folder: &Path/*+*/, Ghost(v): Ghost<Seq<Seq<Seq<TRec>>>>, Ghost(b): Ghost<Seq<BRec>>, Ghost(tt): Ghost<TreeType>, Ghost(g): Ghost<int>/*-*/) -> /*+*/(r: /*-*/Result<Recovery, Error>/*+*/)
    requires exists|id: u64, cs: u128| current_fields(folder) == #[trigger] current_record(id, cs),
        ({ let secs = file_sections(folder, current_id(folder));
        // the version file `current` names holds the image of (v, b, tt, g)
        &&& lookup(secs, SectionName::Tables) == Some(tables_section(v)) && counts_fit(v)
        &&& lookup(secs, SectionName::BlobFiles) == Some(blobs_section(b)) && b.len() <= u32::MAX
        &&& lookup(secs, SectionName::TreeType) == Some(seq![Field::U8(tt_code(tt))])
        &&& lookup(secs, SectionName::BlobGcStats) == Some(gc_fields(g)) }),
    ensures
        // C04.14: recovery reads back exactly that structure
        r is Ok ==> levels_view(r->Ok_0.table_ids) == v && r->Ok_0.tree_type == tt && r->Ok_0.gc_stats.g == g && r->Ok_0.curr_version_id == current_id(folder)
            && perm_of_image(r->Ok_0.blob_file_ids@, b)
            && forall|x: int, y: int| 0 <= x < y < r->Ok_0.blob_file_ids@.len() ==> r->Ok_0.blob_file_ids@[x].0 <= r->Ok_0.blob_file_ids@[y].0,/*-*/
{
    let (curr_version_id, expected_checksum) = get_current_version(folder)?;
    let version_file_path = folder.join(version_file_name(curr_version_id));

    {
        let bytes = fs_read(&version_file_path)?;

        Checksum::from_raw(hash128_exec(&bytes))
            .check(expected_checksum)?;
    }

    let reader = SfaReader::new(&version_file_path)?;
    let toc = reader.toc();

    let mut levels = vec![];

    {
        let mut reader = toc
            .section(SectionName::Tables)
            .ok_or(Error::Unrecoverable)?
            .buf_reader(&version_file_path)?;

        let level_count = reader.read_u8()?;
        /*+*/proof { assert(reader.rest =~= levels_from(v, 0)); }/*-*/

        for _i in it_l: 0..level_count
            /*+*/invariant level_count == v.len(), counts_fit(v), reader.rest == levels_from(v, it_l.index@ as int),
                levels@.len() == it_l.index@, forall|i: int| 0 <= i < it_l.index@ ==> level_view(#[trigger] levels@[i]) == v[i],/*-*/
        {
            let mut level = vec![];
            /*+*/let ghost i = it_l.index@ as int; proof { lemma_levels_step(v, i); }/*-*/
            let run_count = reader.read_u8()?;

            for _j in it_r: 0..run_count
                /*+*/invariant 0 <= i < v.len(), run_count == v[i].len(), counts_fit(v), reader.rest == runs_from(v[i], it_r.index@ as int) + levels_from(v, i + 1),
                    level@.len() == it_r.index@, forall|j: int| 0 <= j < it_r.index@ ==> run_view(#[trigger] level@[j]) == v[i][j],/*-*/
            {
                let mut run = vec![];
                /*+*/let ghost j = it_r.index@ as int; let ghost tail = runs_from(v[i], j + 1) + levels_from(v, i + 1); proof { lemma_runs_step(v[i], j, levels_from(v, i + 1)); }/*-*/
                let table_count = reader.read_u32_le()?;

                for _k in it_t: 0..table_count
                    /*+*/invariant 0 <= i < v.len(), 0 <= j < v[i].len(), table_count == v[i][j].len(), reader.rest == tables_from(v[i][j], it_t.index@ as int) + tail,
                        run@.len() == it_t.index@, forall|k: int| 0 <= k < it_t.index@ ==> trec(#[trigger] run@[k]) == v[i][j][k],/*-*/
                {
                    /*+*/let ghost k = it_t.index@ as int; let ghost x = reader.rest; proof { lemma_tables_step(v[i][j], k, tail); lemma_skip4(x); }/*-*/
                    let id = reader.read_u64_le()?;
                    let checksum_type = reader.read_u8()?;

                    if checksum_type != 0 {
                        return Err(Error::InvalidTag(("ChecksumType", checksum_type)));
                    }

                    let checksum = reader.read_u128_le()?;
                    let checksum = Checksum::from_raw(checksum);

                    let global_seqno = reader.read_u64_le()?;

                    run.push(RecoveredTable {
                        id,
                        checksum,
                        global_seqno,
                    });
                }
                /*+*/proof { assert(tables_from(v[i][j], v[i][j].len() as int) + tail =~= tail); assert(run_view(run) =~= v[i][j]); }/*-*/

                level.push(run);
            }
            /*+*/proof { assert(runs_from(v[i], v[i].len() as int) + levels_from(v, i + 1) =~= levels_from(v, i + 1)); assert(level_view(level) =~= v[i]); }/*-*/

            levels.push(level);
        }
    }
    /*+*/proof { assert(levels_view(levels) =~= v); }/*-*/

    let blob_file_ids = {
        let mut reader = toc
            .section(SectionName::BlobFiles)
            .ok_or(Error::Unrecoverable)?
            .buf_reader(&version_file_path)?;

        let blob_file_count = reader.read_u32_le()?;
        let mut blob_file_ids = Vec::with_capacity(blob_file_count as usize);
        /*+*/proof { assert(reader.rest =~= blobs_from(b, 0)); }/*-*/

        for _k in it_b: 0..blob_file_count
            /*+*/invariant blob_file_count == b.len(), reader.rest == blobs_from(b, it_b.index@ as int),
                blob_file_ids@.len() == it_b.index@, forall|k: int| 0 <= k < it_b.index@ ==> brec(#[trigger] blob_file_ids@[k]) == b[k],/*-*/
        {
            /*+*/let ghost x = reader.rest; proof { lemma_blobs_step(b, it_b.index@ as int); lemma_skip3(x); }/*-*/
            let id = reader.read_u64_le()?;

            let checksum_type = reader.read_u8()?;

            if checksum_type != 0 {
                return Err(Error::InvalidTag(("ChecksumType", checksum_type)));
            }

            let checksum = reader.read_u128_le()?;
            let checksum = Checksum::from_raw(checksum);

            blob_file_ids.push((id, checksum));
        }
        /*+*/let ghost pre = blob_file_ids@; proof { assert(blobs_view(pre) =~= b); }/*-*/

        sort_by_id(&mut blob_file_ids);
        /*+*/proof { assert(blobs_view(pre) == b && pre.to_multiset() == blob_file_ids@.to_multiset()); }/*-*/
        blob_file_ids
    };

    let gc_stats = {
        let mut reader = toc
            .section(SectionName::BlobGcStats)
            .ok_or(Error::Unrecoverable)?
            .buf_reader(&version_file_path)?;

        FragmentationMap::decode_from(&mut reader)?
    };

    Ok(Recovery {
        tree_type: {
            let byte = toc.section(SectionName::TreeType).ok_or(Error::Unrecoverable)?
            .buf_reader(
                &version_file_path
            )?
            .read_u8()?;

            tree_type_from(byte)?
        },
        curr_version_id,
        table_ids: levels,
        blob_file_ids,
        gc_stats,
    })
}
//@ END

/// `TreeType::try_from(byte).map_err(|()| InvalidHeader("TreeType"))`
fn tree_type_from(byte: u8) -> (r: Result<TreeType, Error>) ensures forall|t: TreeType| byte == tt_code(t) ==> r == Ok::<TreeType, Error>(t)
{ match TreeType::try_from(byte) { Ok(t) => Ok(t), Err(_) => Err(Error::InvalidHeader("TreeType")) } }


// ---------------- writing ----------------
//@ INCLUDE prelude/seqiter.rs

/// light version structure (R8), as in unit encode
pub struct Table { pub id: u64, pub checksum: u128, pub global_seqno: u64 }
impl Table {
    pub fn id(&self) -> (r: u64) ensures r == self.id { self.id }
    pub fn checksum(&self) -> (r: Checksum) ensures r.0 == self.checksum { Checksum(self.checksum) }
    pub fn global_seqno(&self) -> (r: u64) ensures r == self.global_seqno { self.global_seqno }
}
pub struct Run { pub tables: Vec<Table> }
impl Run {
    pub fn len(&self) -> (r: usize) ensures r == self.tables@.len() { self.tables.len() }
    #[verifier::external_body]
    pub fn iter(&self) -> (r: SeqIter<&Table>)
        ensures r.rest().len() == self.tables@.len(), forall|i: int| 0 <= i < self.tables@.len() ==> *(#[trigger] r.rest()[i]) == self.tables@[i]
    { unimplemented!() }
}
pub struct Level { pub runs: Vec<Run> }
impl Level {
    pub fn len(&self) -> (r: usize) ensures r == self.runs@.len() { self.runs.len() }
    #[verifier::external_body]
    pub fn iter(&self) -> (r: SeqIter<&Run>)
        ensures r.rest().len() == self.runs@.len(), forall|i: int| 0 <= i < self.runs@.len() ==> *(#[trigger] r.rest()[i]) == self.runs@[i]
    { unimplemented!() }
}
pub struct BlobFileInner { pub checksum: Checksum }
pub struct BlobFile(pub BlobFileInner, pub u64);
impl BlobFile { pub fn id(&self) -> (r: u64) ensures r == self.1 { self.1 } }
/// BlobFileList (a HashMap): `iter()` visits every file once, in some order `order()`
pub struct BlobFileList { pub files: Vec<BlobFile> }
impl BlobFileList {
    pub fn len(&self) -> (r: usize) ensures r == self.files@.len() { self.files.len() }
    #[verifier::external_body]
    pub fn iter(&self) -> (r: SeqIter<&BlobFile>)
        ensures r.rest().len() == self.files@.len(), forall|i: int| 0 <= i < self.files@.len() ==> *(#[trigger] r.rest()[i]) == self.files@[i]
    { unimplemented!() }
}
pub enum FormatVersion { V3 }
impl FormatVersion { #[verifier::external_body] pub fn into(self) -> u8 { 3 } }
pub enum ChecksumType { Xxh3 }
#[verifier::external_body] pub fn checksum_type_u8(c: ChecksumType) -> u8 { 0 }
#[verifier::external_body] pub fn crate_version_bytes() -> (r: Vec<u8>) { Vec::new() }
#[verifier::external_body] pub fn too_many_runs() -> Error { Error::Io }
impl FragmentationMap {
    /// FragmentationMap::encode_into appends the image of the statistics to the open section (own round trip: C04.3)
    #[verifier::external_body]
    pub fn encode_into(&self, writer: &mut SfaWriter) -> (r: Result<(), Error>)
        ensures r is Ok ==> final(writer).done == old(writer).done && final(writer).name == old(writer).name && final(writer).cur == old(writer).cur + gc_fields(self.g)
    { Ok(()) }
}
pub struct Version { pub levels: Vec<Level>, pub blob_files: BlobFileList, pub tree_type: TreeType, pub gc_stats: FragmentationMap }
impl Version {
    pub fn level_count(&self) -> (r: usize) ensures r == self.levels@.len() { self.levels.len() }
    #[verifier::external_body]
    pub fn iter_levels(&self) -> (r: SeqIter<&Level>)
        ensures r.rest().len() == self.levels@.len(), forall|i: int| 0 <= i < self.levels@.len() ==> *(#[trigger] r.rest()[i]) == self.levels@[i]
    { unimplemented!() }
}
spec fn trec_of(t: Table) -> TRec { TRec { id: t.id, checksum: t.checksum, seqno: t.global_seqno } }
spec fn run_of(r: Run) -> Seq<TRec> { Seq::new(r.tables@.len(), |k: int| trec_of(r.tables@[k])) }
spec fn level_of(l: Level) -> Seq<Seq<TRec>> { Seq::new(l.runs@.len(), |j: int| run_of(l.runs@[j])) }
spec fn levels_of(v: Version) -> Seq<Seq<Seq<TRec>>> { Seq::new(v.levels@.len(), |i: int| level_of(v.levels@[i])) }
spec fn brec_of(b: BlobFile) -> BRec { BRec { id: b.1, checksum: b.0.checksum.0 } }
spec fn blobs_of(v: Version) -> Seq<BRec> { Seq::new(v.blob_files.files@.len(), |k: int| brec_of(v.blob_files.files@[k])) }

/// sfa::Writer: the sections closed so far and the open one (R13)
pub struct SfaWriter { pub ghost done: Sections, pub ghost name: Option<SectionName>, pub ghost cur: Seq<Field> }
pub open spec fn closed(w: SfaWriter) -> Sections { match w.name { Some(n) => w.done.push((n, w.cur)), None => w.done } }
impl SfaWriter {
    /// start(name) closes the open section (if any) and opens an empty one
    #[verifier::external_body] pub fn start(&mut self, name: SectionName) -> (r: Result<(), Error>)
        ensures r is Ok ==> final(self).done == closed(*old(self)) && final(self).name == Some(name) && final(self).cur == Seq::<Field>::empty() { Ok(()) }
    #[verifier::external_body] pub fn write_all(&mut self, b: &[u8]) -> (r: Result<(), Error>)
        ensures r is Ok ==> final(self).done == old(self).done && final(self).name == old(self).name && final(self).cur == old(self).cur.push(Field::Bytes) { Ok(()) }
    #[verifier::external_body] pub fn write_u8(&mut self, v: u8) -> (r: Result<(), Error>)
        ensures r is Ok ==> final(self).done == old(self).done && final(self).name == old(self).name && final(self).cur == old(self).cur.push(Field::U8(v)) { Ok(()) }
    #[verifier::external_body] pub fn write_u32_le(&mut self, v: u32) -> (r: Result<(), Error>)
        ensures r is Ok ==> final(self).done == old(self).done && final(self).name == old(self).name && final(self).cur == old(self).cur.push(Field::U32(v)) { Ok(()) }
    #[verifier::external_body] pub fn write_u64_le(&mut self, v: u64) -> (r: Result<(), Error>)
        ensures r is Ok ==> final(self).done == old(self).done && final(self).name == old(self).name && final(self).cur == old(self).cur.push(Field::U64(v)) { Ok(()) }
    #[verifier::external_body] pub fn write_u128_le(&mut self, v: u128) -> (r: Result<(), Error>)
        ensures r is Ok ==> final(self).done == old(self).done && final(self).name == old(self).name && final(self).cur == old(self).cur.push(Field::U128(v)) { Ok(()) }
}
/// the sections encode_into closes, given the structure written (the statistics section is still open when it returns)
pub open spec fn version_sections(fv: u8, tt: TreeType, ht: u8, v: Seq<Seq<Seq<TRec>>>, b: Seq<BRec>) -> Sections {
    seq![(SectionName::FormatVersion, seq![Field::U8(fv)]), (SectionName::CrateVersion, seq![Field::Bytes]), (SectionName::TreeType, seq![Field::U8(tt_code(tt))]),
         (SectionName::LevelCount, seq![Field::U8(v.len() as u8)]), (SectionName::FilterHashType, seq![Field::U8(ht)]),
         (SectionName::Tables, tables_section(v)), (SectionName::BlobFiles, blobs_section(b))]
}
proof fn lemma_push_front(cur: Seq<Field>, f: Field, rest: Seq<Field>)
    requires rest.len() > 0, rest[0] == f
    ensures cur.push(f) + rest.skip(1) == cur + rest
{ assert(cur.push(f) + rest.skip(1) =~= cur + rest); }

impl Version {
//@ FROM src/version/mod.rs :: impl Version :: fn encode_into :: OBL C04.14, C07.15
//@ SUBST `writer : & mut sfa :: Writer < impl std :: io :: Write + std :: io :: Seek >` ==> `writer: &mut SfaWriter`
//@ SUBST `use crate :: FormatVersion ;` ==> ``
//@ SUBST `use byteorder :: { LittleEndian , WriteBytesExt } ;` ==> ``
//@ SUBST `use std :: io :: Write ;` ==> ``
//@ SUBST `env ! ( "CARGO_PKG_VERSION" ) . as_bytes ( )` ==> `crate_version_bytes().as_slice()`
//@ SUBST `u8 :: from ( ChecksumType :: Xxh3 )` ==> `checksum_type_u8(ChecksumType::Xxh3)`
//@ SUBST `write_u32 :: < LittleEndian >` ==> `write_u32_le`
//@ SUBST `write_u64 :: < LittleEndian >` ==> `write_u64_le`
//@ SUBST `write_u128 :: < LittleEndian >` ==> `write_u128_le`
//@ SUBST `| _ |` ==> `|_e: core::num::TryFromIntError|`
//@ SUBST `Error :: Io ( std :: io :: Error :: other ( "too many runs in level to persist version (max 255)" , ) )` ==> `too_many_runs()`
//@ SUBST `"format_version"` ==> `SectionName::FormatVersion`
//@ SUBST `"crate_version"` ==> `SectionName::CrateVersion`
//@ SUBST `"tree_type"` ==> `SectionName::TreeType`
//@ SUBST `"level_count"` ==> `SectionName::LevelCount`
//@ SUBST `"filter_hash_type"` ==> `SectionName::FilterHashType`
//@ SUBST `"tables"` ==> `SectionName::Tables`
//@ SUBST `"blob_files"` ==> `SectionName::BlobFiles`
//@ SUBST `"blob_gc_stats"` ==> `SectionName::BlobGcStats`
//@ SUBST `self . tree_type . into ( )` ==> `TreeType::from(self.tree_type)`
    fn encode_into(
        &self,
        writer: &mut SfaWriter,
    ) -> /*+*/(r: /*-*/Result<(), Error>/*+*/)
        requires self.levels@.len() < 256,
            forall|i: int, j: int| 0 <= i < self.levels@.len() && 0 <= j < self.levels@[i].runs@.len() ==> (#[trigger] self.levels@[i].runs@[j]).tables@.len() <= u32::MAX,
            self.blob_files.files@.len() <= u32::MAX,
        ensures
            // C04.14: the sections written are the image of this version's structure: every level, every run of it, every table of it in
            // order with (id, checksum, global seqno); every blob file with (id, checksum); the tree type; then the gc statistics
            r is Ok ==> counts_fit(levels_of(*self)) && exists|fv: u8, ht: u8|
                final(writer).done == closed(*old(writer)) + #[trigger] version_sections(fv, self.tree_type, ht, levels_of(*self), blobs_of(*self))
                && final(writer).name == Some(SectionName::BlobGcStats) && final(writer).cur == gc_fields(self.gc_stats.g),/*-*/
    {
        /*+*/let ghost d0 = closed(*writer); let ghost lv = levels_of(*self); let ghost bv = blobs_of(*self);/*-*/
        writer.start(SectionName::FormatVersion)?;
        writer.write_u8(FormatVersion::V3.into())?;
        /*+*/let ghost fv = writer.cur[0]->U8_0; proof { assert(writer.cur =~= seq![Field::U8(fv)]); }/*-*/

        writer.start(SectionName::CrateVersion)?;
        writer.write_all(crate_version_bytes().as_slice())?;
        /*+*/proof { assert(writer.cur =~= seq![Field::Bytes]); }/*-*/

        writer.start(SectionName::TreeType)?;
        writer.write_u8(TreeType::from(self.tree_type))?;
        /*+*/proof { assert(writer.cur =~= seq![Field::U8(tt_code(self.tree_type))]); }/*-*/

        writer.start(SectionName::LevelCount)?;
        writer.write_u8(self.level_count() as u8)?;
        /*+*/proof { assert(writer.cur =~= seq![Field::U8(lv.len() as u8)]); }/*-*/

        writer.start(SectionName::FilterHashType)?;
        writer.write_u8(checksum_type_u8(ChecksumType::Xxh3))?;
        /*+*/let ghost ht = writer.cur[0]->U8_0; proof { assert(writer.cur =~= seq![Field::U8(ht)]); }/*-*/

        writer.start(SectionName::Tables)?;

        writer.write_u8(self.level_count() as u8)?;
        /*+*/let ghost d5 = writer.done; let ghost total = tables_section(lv);
        proof { assert(writer.cur + levels_from(lv, 0) =~= total); }/*-*/

        for level in /*+*/it: /*-*/self.iter_levels()
            /*+*/invariant
                it.seq().len() == self.levels@.len(), forall|i: int| 0 <= i < self.levels@.len() ==> *(#[trigger] it.seq()[i]) == self.levels@[i],
                lv == levels_of(*self), total == tables_section(lv), self.levels@.len() < 256,
                forall|i: int, j: int| 0 <= i < self.levels@.len() && 0 <= j < self.levels@[i].runs@.len() ==> (#[trigger] self.levels@[i].runs@[j]).tables@.len() <= u32::MAX,
                writer.done == d5, writer.name == Some(SectionName::Tables),
                writer.cur + levels_from(lv, it.index@ as int) == total,
                forall|l: int| 0 <= l < it.index@ ==> (#[trigger] lv[l]).len() < 256,/*-*/
        {
            /*+*/let ghost i = it.index@ as int; proof { assert(*level == self.levels@[i]); assert(lv[i] == level_of(self.levels@[i])); lemma_levels_step(lv, i); }
            let ghost c0 = writer.cur;/*-*/
            let run_count = u8::try_from(level.len()).map_err(|_e: core::num::TryFromIntError| {
                too_many_runs()
            })?;
            writer.write_u8(run_count)?;
            /*+*/proof { lemma_push_front(c0, Field::U8(run_count), levels_from(lv, i)); }/*-*/

            for run in /*+*/it_r: /*-*/level.iter()
                /*+*/invariant
                    it_r.seq().len() == level.runs@.len(), forall|j: int| 0 <= j < level.runs@.len() ==> *(#[trigger] it_r.seq()[j]) == level.runs@[j],
                    0 <= i < lv.len(), lv[i] == level_of(*level), forall|j: int| 0 <= j < level.runs@.len() ==> (#[trigger] level.runs@[j]).tables@.len() <= u32::MAX,
                    writer.done == d5, writer.name == Some(SectionName::Tables),
                    writer.cur + (runs_from(lv[i], it_r.index@ as int) + levels_from(lv, i + 1)) == total,/*-*/
            {
                /*+*/let ghost j = it_r.index@ as int; let ghost tail = runs_from(lv[i], j + 1) + levels_from(lv, i + 1);
                proof { assert(*run == level.runs@[j]); assert(lv[i][j] == run_of(level.runs@[j])); lemma_runs_step(lv[i], j, levels_from(lv, i + 1)); }
                let ghost c1 = writer.cur;/*-*/
                writer.write_u32_le(run.len() as u32)?;
                /*+*/proof { lemma_push_front(c1, Field::U32(run.tables@.len() as u32), runs_from(lv[i], j) + levels_from(lv, i + 1)); }/*-*/

                for table in /*+*/it_t: /*-*/run.iter()
                    /*+*/invariant
                        it_t.seq().len() == run.tables@.len(), forall|k: int| 0 <= k < run.tables@.len() ==> *(#[trigger] it_t.seq()[k]) == run.tables@[k],
                        0 <= i < lv.len(), 0 <= j < lv[i].len(), lv[i][j] == run_of(*run),
                        writer.done == d5, writer.name == Some(SectionName::Tables),
                        writer.cur + (tables_from(lv[i][j], it_t.index@ as int) + tail) == total,/*-*/
                {
                    /*+*/let ghost k = it_t.index@ as int; let ghost c2 = writer.cur; let ghost x = tables_from(lv[i][j], k) + tail;
                    proof { assert(*table == run.tables@[k]); assert(lv[i][j][k] == trec_of(run.tables@[k])); lemma_tables_step(lv[i][j], k, tail); lemma_skip4(x); }/*-*/
                    writer.write_u64_le(table.id())?;
                    writer.write_u8(0)?;
                    writer.write_u128_le(table.checksum().into_u128())?;
                    writer.write_u64_le(table.global_seqno())?;
                    /*+*/proof { assert(writer.cur + x.skip(4) =~= c2 + x); }/*-*/
                }
                /*+*/proof { assert(tables_from(lv[i][j], lv[i][j].len() as int) + tail =~= tail); }/*-*/
            }
            /*+*/proof { assert(runs_from(lv[i], lv[i].len() as int) + levels_from(lv, i + 1) =~= levels_from(lv, i + 1)); }/*-*/
        }

        /*+*/proof { assert(writer.cur + levels_from(lv, lv.len() as int) =~= writer.cur); }/*-*/
        writer.start(SectionName::BlobFiles)?;

        writer.write_u32_le(self.blob_files.len() as u32)?;
        /*+*/let ghost d6 = writer.done; let ghost btotal = blobs_section(bv);
        proof { assert(writer.cur + blobs_from(bv, 0) =~= btotal); }/*-*/

        for file in /*+*/it_b: /*-*/self.blob_files.iter()
            /*+*/invariant
                it_b.seq().len() == self.blob_files.files@.len(), forall|k: int| 0 <= k < self.blob_files.files@.len() ==> *(#[trigger] it_b.seq()[k]) == self.blob_files.files@[k],
                bv == blobs_of(*self), btotal == blobs_section(bv),
                writer.done == d6, writer.name == Some(SectionName::BlobFiles),
                writer.cur + blobs_from(bv, it_b.index@ as int) == btotal,/*-*/
        {
            /*+*/let ghost k = it_b.index@ as int; let ghost c3 = writer.cur; let ghost x = blobs_from(bv, k);
            proof { assert(*file == self.blob_files.files@[k]); assert(bv[k] == brec_of(self.blob_files.files@[k])); lemma_blobs_step(bv, k); lemma_skip3(x); }/*-*/
            writer.write_u64_le(file.id())?;
            writer.write_u8(0)?;
            writer.write_u128_le(file.0.checksum.into_u128())?;
            /*+*/proof { assert(writer.cur + x.skip(3) =~= c3 + x); }/*-*/
        }

        /*+*/proof { assert(writer.cur + blobs_from(bv, bv.len() as int) =~= writer.cur); }/*-*/
        writer.start(SectionName::BlobGcStats)?;

        /*+*/let ghost d7 = writer.done;/*-*/
        self.gc_stats.encode_into(writer)?;
        /*+*/proof {
            assert(writer.cur =~= gc_fields(self.gc_stats.g));
            assert(d7 =~= d0 + version_sections(fv, self.tree_type, ht, lv, bv));
            assert(counts_fit(lv));
        }/*-*/

        Ok(())
    }
//@ END
}

/// the round trip: the archive encode_into produces in a fresh sfa writer (persist_version: `sfa::Writer::from_writer`, then `finish()`
/// closes the open statistics section) is one for which recover's precondition holds with exactly the structure that was written - so
/// (by recover's postcondition) recovery returns that structure
proof fn lemma_version_roundtrip(fv: u8, tt: TreeType, ht: u8, v: Seq<Seq<Seq<TRec>>>, b: Seq<BRec>, g: int)
    ensures ({ let secs = closed(SfaWriter { done: Seq::<(SectionName, Seq<Field>)>::empty() + version_sections(fv, tt, ht, v, b), name: Some(SectionName::BlobGcStats), cur: gc_fields(g) });
        &&& lookup(secs, SectionName::Tables) == Some(tables_section(v))
        &&& lookup(secs, SectionName::BlobFiles) == Some(blobs_section(b))
        &&& lookup(secs, SectionName::TreeType) == Some(seq![Field::U8(tt_code(tt))])
        &&& lookup(secs, SectionName::BlobGcStats) == Some(gc_fields(g)) })
{
    let secs = closed(SfaWriter { done: Seq::<(SectionName, Seq<Field>)>::empty() + version_sections(fv, tt, ht, v, b), name: Some(SectionName::BlobGcStats), cur: gc_fields(g) });
    assert(secs.len() == 8);
    assert(secs[2] == (SectionName::TreeType, seq![Field::U8(tt_code(tt))]));
    assert(secs[5] == (SectionName::Tables, tables_section(v)));
    assert(secs[6] == (SectionName::BlobFiles, blobs_section(b)));
    assert(secs[7] == (SectionName::BlobGcStats, gc_fields(g)));
    lemma_lookup_at(secs, SectionName::TreeType, 2);
    lemma_lookup_at(secs, SectionName::Tables, 5);
    lemma_lookup_at(secs, SectionName::BlobFiles, 6);
    lemma_lookup_at(secs, SectionName::BlobGcStats, 7);
}
proof fn lemma_lookup_at(a: Sections, name: SectionName, i: int)
    requires 0 <= i < a.len(), a[i].0 == name, forall|k: int| 0 <= k < i ==> (#[trigger] a[k]).0 != name
    ensures lookup(a, name) == Some(a[i].1)
    decreases i
{
    if i > 0 {
        assert(a.skip(1)[i - 1] == a[i]);
        assert forall|k: int| 0 <= k < i - 1 implies (#[trigger] a.skip(1)[k]).0 != name by { assert(a.skip(1)[k] == a[k + 1]); }
        lemma_lookup_at(a.skip(1), name, i - 1);
    }
}
}
fn main() {}
