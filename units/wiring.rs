//@ UNIT wiring
// Which counter / handle is passed where.  compaction::worker::Options::from_tree (C02.9): the compaction worker draws the
// seqno of the versions it installs from the tree's *write* counter, so a version's seqno exceeds every entry it contains.
use vstd::prelude::*;
verus! {

pub type TreeId = u64;
/// TRUSTED prelude: a shared handle (Arc<..> / SequenceNumberCounter); `id()` says which underlying object it refers to, clone shares it
#[verifier::external_body]
pub struct Handle { p: u8 }
impl Handle { pub uninterp spec fn id(&self) -> int; }
impl Clone for Handle { #[verifier::external_body] fn clone(&self) -> (r: Self) ensures r.id() == self.id() { unimplemented!() } }
pub type SequenceNumberCounter = Handle;
pub type StopSignal = Handle;
pub struct ConfigInner { pub seqno: SequenceNumberCounter, pub visible_seqno: SequenceNumberCounter }
/// stands for Arc<Config>
pub struct ConfigRef { pub c: ConfigInner, pub h: Handle }
impl Clone for ConfigRef { #[verifier::external_body] fn clone(&self) -> (r: Self) ensures r.h.id() == self.h.id(), r.c.seqno.id() == self.c.seqno.id(), r.c.visible_seqno.id() == self.c.visible_seqno.id() { unimplemented!() } }
pub struct Tree { pub id: TreeId, pub config: ConfigRef, pub table_id_counter: Handle, pub blob_file_id_counter: Handle, pub version_history: Handle, pub stop_signal: Handle, pub compaction_state: Handle }
impl ConfigRef {
    pub open spec fn seqno_id(&self) -> int { self.c.seqno.id() }
    pub open spec fn visible_id(&self) -> int { self.c.visible_seqno.id() }
}

//@ SUBST `Arc < dyn CompactionStrategy >` ==> `Handle`
//@ SUBST `Arc < RwLock < SuperVersions > >` ==> `Handle`
//@ SUBST `Arc < Mutex < CompactionState > >` ==> `Handle`
//@ SUBST `Arc < Config >` ==> `ConfigRef`
//@ SUBST `tree . config . seqno` ==> `tree.config.c.seqno`
//@ SUBST `tree . config . visible_seqno` ==> `tree.config.c.visible_seqno`
//@ SUBST `& crate :: Tree` ==> `&Tree`
//@ FROM src/compaction/worker.rs :: - :: struct Options
struct Options {
    tree_id: TreeId,

    global_seqno: SequenceNumberCounter,

    visible_seqno: SequenceNumberCounter,

    table_id_generator: SequenceNumberCounter,

    blob_file_id_generator: SequenceNumberCounter,

    config: ConfigRef,

    version_history: Handle,

    strategy: Handle,

    stop_signal: StopSignal,

    mvcc_gc_watermark: u64,

    compaction_state: Handle,
}
//@ END

impl Options {
//@ FROM src/compaction/worker.rs :: impl Options :: fn from_tree :: OBL C02.9
    fn from_tree(tree: &Tree, strategy: Handle) -> /*+*/(r: /*-*/Self/*+*/)
        ensures
            // C02.9: version seqnos come from the same counter as write seqnos (never from the visibility counter)
            r.global_seqno.id() == tree.config.seqno_id(),
            r.visible_seqno.id() == tree.config.visible_id(),
            r.table_id_generator.id() == tree.table_id_counter.id(),
            r.blob_file_id_generator.id() == tree.blob_file_id_counter.id(),
            r.version_history.id() == tree.version_history.id(),
            r.compaction_state.id() == tree.compaction_state.id(),
            r.tree_id == tree.id, r.mvcc_gc_watermark == 0,/*-*/
    {
        Self {
            global_seqno: tree.config.c.seqno.clone(),
            visible_seqno: tree.config.c.visible_seqno.clone(),
            tree_id: tree.id,
            table_id_generator: tree.table_id_counter.clone(),
            blob_file_id_generator: tree.blob_file_id_counter.clone(),
            config: tree.config.clone(),
            version_history: tree.version_history.clone(),
            stop_signal: tree.stop_signal.clone(),
            strategy,
            mvcc_gc_watermark: 0,

            compaction_state: tree.compaction_state.clone(),
        }
    }
//@ END
}

} // verus!
fn main() {}
