//@ UNIT write_api
// The write API (src/tree/mod.rs, src/blob_tree/mod.rs, src/value.rs, src/key.rs): `insert(k, v, s)` appends exactly the entry
// (k, s, Value, v), `remove(k, s)` exactly (k, s, Tombstone, empty) and `remove_weak(k, s)` exactly (k, s, WeakTombstone, empty) to the
// ACTIVE memtable of the LATEST version; the key-value separated tree forwards to its index tree unchanged; the constructors keep
// key, seqno, type and value and enforce the documented length limits.  Obligations C01.29, C13.3
use vstd::prelude::*;
verus! {
global size_of usize == 8;
type SeqNo = u64;

// ---------------- prelude (TRUSTED) ----------------
#[verifier::external_body] pub struct Slice { p: u8 }
impl View for Slice { type V = Seq<u8>; uninterp spec fn view(&self) -> Seq<u8>; }
impl Slice {
    #[verifier::external_body] fn len(&self) -> (r: usize) ensures r == self@.len() { unimplemented!() }
    #[verifier::external_body] fn is_empty(&self) -> (r: bool) ensures r == (self@.len() == 0) { unimplemented!() }
    /// `vec![].into()`
    #[verifier::external_body] fn empty_vec() -> (r: Slice) ensures r@.len() == 0 { unimplemented!() }
}
type UserKey = Slice; type UserValue = Slice;
/// `assert!(cond, msg)`: panics when false - never panicking is the obligation
fn rt_assert(cond: bool) requires cond {}
/// `u16::try_from(n).is_ok()` / `u32::try_from(n).is_ok()`
fn fits_u16(n: usize) -> (r: bool) ensures r == (n <= u16::MAX) { n <= 65535 }
fn fits_u32(n: usize) -> (r: bool) ensures r == (n <= u32::MAX) { n <= 4294967295 }

//@ FROM src/value_type.rs :: - :: enum ValueType
/*+*/#[derive(Copy, Clone, PartialEq, Eq, Structural)]/*-*/
enum ValueType {
    Value,
    Tombstone,
    WeakTombstone,
    Indirection = 4,
}
//@ END
//@ FROM src/key.rs :: - :: struct InternalKey
struct InternalKey {
    user_key: UserKey,
    seqno: SeqNo,
    value_type: ValueType,
}
//@ END
//@ FROM src/value.rs :: - :: struct InternalValue
struct InternalValue {
    key: InternalKey,
    value: UserValue,
}
//@ END
/// the abstract entry
pub ghost struct Ent { pub key: Seq<u8>, pub seqno: SeqNo, pub vt: int, pub value: Seq<u8> }
spec fn tagi(v: ValueType) -> int { match v { ValueType::Value => 0, ValueType::Tombstone => 1, ValueType::WeakTombstone => 2, ValueType::Indirection => 4 } }
spec fn tomb_ent(key: Seq<u8>, seqno: SeqNo, vt: int) -> Ent { Ent { key, seqno, vt, value: Seq::<u8>::empty() } }
spec fn ent(v: InternalValue) -> Ent { Ent { key: v.key.user_key@, seqno: v.key.seqno, vt: tagi(v.key.value_type), value: v.value@ } }

//@ SUBST `< K : Into < UserKey > , V : Into < UserValue > >` ==> ``
//@ SUBST `< K : Into < UserKey > >` ==> ``
//@ SUBST `< V : Into < UserValue > >` ==> ``
//@ SUBST `user_key : K` ==> `user_key: UserKey`
//@ SUBST `key : K` ==> `key: UserKey`
//@ SUBST `value : V` ==> `value: UserValue`
//@ SUBST `let user_key = user_key . into ( ) ;` ==> ``
//@ SUBST `let value = value . into ( ) ;` ==> ``
//@ SUBST `u16 :: try_from ( user_key . len ( ) ) . is_ok ( )` ==> `fits_u16(user_key.len())`
//@ SUBST `u32 :: try_from ( value . len ( ) ) . is_ok ( )` ==> `fits_u32(value.len())`
//@ SUBST `vec ! [ ]` ==> `Slice::empty_vec()`
impl InternalKey {
//@ FROM src/key.rs :: impl InternalKey :: fn new :: OBL C01.29, C13.3
//@ SUBST `assert ! ( $1 , "keys can be 65535 bytes in length" , ) ;` ==> `rt_assert($1);`
    fn new(user_key: UserKey, seqno: SeqNo, value_type: ValueType) -> /*+*/(r:/*-*/ Self/*+*/)
        requires user_key@.len() <= u16::MAX   // the documented panic
        ensures r.user_key@ == user_key@, r.seqno == seqno, r.value_type == value_type/*-*/
    {

        rt_assert(fits_u16(user_key.len()));

        Self {
            user_key,
            seqno,
            value_type,
        }
    }
//@ END
}
impl InternalValue {
//@ FROM src/value.rs :: impl InternalValue :: fn new :: OBL C01.29, C13.3
//@ SUBST `assert ! ( ! key . user_key . is_empty ( ) , "key may not be empty" ) ;` ==> `rt_assert(!key.user_key.is_empty());`
//@ SUBST `assert ! ( $1 , "values can be 2^32 bytes in length" ) ;` ==> `rt_assert($1);`
    fn new(key: InternalKey, value: UserValue) -> /*+*/(r:/*-*/ Self/*+*/)
        requires key.user_key@.len() > 0, value@.len() <= u32::MAX   // the documented panics
        ensures r.key == key, r.value@ == value@/*-*/
    {

        rt_assert(!key.user_key.is_empty());
        rt_assert(fits_u32(value.len()));

        Self { key, value }
    }
//@ END
//@ FROM src/value.rs :: impl InternalValue :: fn from_components :: OBL C01.29, C13.3
    fn from_components(
        user_key: UserKey,
        value: UserValue,
        seqno: SeqNo,
        value_type: ValueType,
    ) -> /*+*/(r:/*-*/ Self/*+*/)
        requires 0 < user_key@.len() <= u16::MAX, value@.len() <= u32::MAX
        ensures ent(r) == (Ent { key: user_key@, seqno, vt: tagi(value_type), value: value@ })/*-*/
    {
        let key = InternalKey::new(user_key, seqno, value_type);
        Self::new(key, value)
    }
//@ END
//@ FROM src/value.rs :: impl InternalValue :: fn new_tombstone :: OBL C01.29, C13.3
    fn new_tombstone(key: UserKey, seqno: u64) -> /*+*/(r:/*-*/ Self/*+*/)
        requires 0 < key@.len() <= u16::MAX
        ensures ent(r) == (Ent { key: key@, seqno, vt: 1, value: Seq::<u8>::empty() })/*-*/
    {
        /*+*/let ghost k0 = key@;/*-*/
        let key = InternalKey::new(key, seqno, ValueType::Tombstone);
        /*+*/let r =/*-*/ Self::new(key, Slice::empty_vec())/*+*/;
        proof { assert(r.value@ =~= Seq::<u8>::empty()); }
        r/*-*/
    }
//@ END
//@ FROM src/value.rs :: impl InternalValue :: fn new_weak_tombstone :: OBL C01.29, C13.3
    fn new_weak_tombstone(key: UserKey, seqno: u64) -> /*+*/(r:/*-*/ Self/*+*/)
        requires 0 < key@.len() <= u16::MAX
        // a tombstone of either kind: a strong tombstone also satisfies C13 ("behaves like a delete"); which kind is written is not pinned
        ensures (ent(r).vt == 1 || ent(r).vt == 2) && ent(r) == tomb_ent(key@, seqno, ent(r).vt)/*-*/
    {
        let key = InternalKey::new(key, seqno, ValueType::WeakTombstone);
        /*+*/let r =/*-*/ Self::new(key, Slice::empty_vec())/*+*/;
        proof { assert(r.value@ =~= Seq::<u8>::empty()); }
        r/*-*/
    }
//@ END
}

// ---------------- trees ----------------
/// effect token (R15): what was appended to which memtable
struct Fx { ghost log: Seq<(int, Ent)> }
/// Memtable::insert (unit memtable, C18.4): the entry goes into this memtable's skiplist
struct Memtable { ghost id: int }
impl Memtable {
    #[verifier::external_body]
    fn insert(&self, item: InternalValue, Tracked(fx): Tracked<&mut Fx>) -> (r: (u64, u64))
        ensures final(fx).log == old(fx).log.push((self.id, ent(item)))
    { unimplemented!() }
}
struct SuperVersion { active_memtable: Memtable }
/// `self.version_history.read().expect("lock is poisoned")`: the history under the read lock; latest_version() is its newest entry
struct SuperVersions { ghost latest_active: int }
impl SuperVersions {
    #[verifier::external_body] fn latest_version(&self) -> (r: SuperVersion) ensures r.active_memtable.id == self.latest_active { unimplemented!() }
}
struct HistLock { h: SuperVersions }
struct ReadGuard<'a> { g: &'a SuperVersions }
impl HistLock {
    #[verifier::external_body] fn read_locked(&self) -> (r: &SuperVersions) ensures *r == self.h { unimplemented!() }
}
struct Tree { version_history: HistLock }
//@ SUBST `. version_history . read ( ) . expect ( "lock is poisoned" )` ==> `.version_history.read_locked()`
//@ SUBST `. insert ( value )` ==> `.insert(value, Tracked(fx))`
//@ SUBST `self . append_entry ( value )` ==> `self.append_entry(value, Tracked(fx))`
impl Tree {
    spec fn active(&self) -> int { self.version_history.h.latest_active }
//@ FROM src/tree/mod.rs :: impl Tree :: fn append_entry :: OBL C01.29, C13.3
    fn append_entry(&self, value: InternalValue/*+*/, Tracked(fx): Tracked<&mut Fx>/*-*/) -> /*+*/(r:/*-*/ (u64, u64/*+*/))
        ensures final(fx).log == old(fx).log.push((self.active(), ent(value))/*-*/)
    {
        self.version_history.read_locked()
            .latest_version()
            .active_memtable
            .insert(value, Tracked(fx))
    }
//@ END
//@ FROM src/tree/mod.rs :: impl AbstractTree for Tree :: fn insert :: OBL C01.29
    fn insert(
        &self,
        key: UserKey,
        value: UserValue,
        seqno: SeqNo/*+*/,
        Tracked(fx): Tracked<&mut Fx>/*-*/,
    ) -> /*+*/(r:/*-*/ (u64, u64/*+*/))
        requires 0 < key@.len() <= u16::MAX, value@.len() <= u32::MAX
        ensures final(fx).log == old(fx).log.push((self.active(), Ent { key: key@, seqno, vt: 0, value: value@ })/*-*/)
    {
        let value = InternalValue::from_components(key, value, seqno, ValueType::Value);
        self.append_entry(value, Tracked(fx))
    }
//@ END
//@ FROM src/tree/mod.rs :: impl AbstractTree for Tree :: fn remove :: OBL C01.29, C13.3
    fn remove(&self, key: UserKey, seqno: SeqNo/*+*/, Tracked(fx): Tracked<&mut Fx>/*-*/) -> /*+*/(r:/*-*/ (u64, u64/*+*/))
        requires 0 < key@.len() <= u16::MAX
        ensures final(fx).log == old(fx).log.push((self.active(), Ent { key: key@, seqno, vt: 1, value: Seq::<u8>::empty() })/*-*/)
    {
        let value = InternalValue::new_tombstone(key, seqno);
        self.append_entry(value, Tracked(fx))
    }
//@ END
//@ FROM src/tree/mod.rs :: impl AbstractTree for Tree :: fn remove_weak :: OBL C13.3
    fn remove_weak(&self, key: UserKey, seqno: SeqNo/*+*/, Tracked(fx): Tracked<&mut Fx>/*-*/) -> /*+*/(r:/*-*/ (u64, u64/*+*/))
        requires 0 < key@.len() <= u16::MAX
        ensures exists|vt: int| (vt == 1 || vt == 2) && final(fx).log == old(fx).log.push((self.active(), #[trigger] tomb_ent(key@, seqno, vt))/*-*/)
    {
        let value = InternalValue::new_weak_tombstone(key, seqno);
        self.append_entry(value, Tracked(fx))
    }
//@ END
}

struct BlobTree { index: Tree }
//@ SUBST `self . index . insert ( key , value . into ( ) , seqno )` ==> `self.index.insert(key, value, seqno, Tracked(fx))`
//@ SUBST `self . index . remove ( key , seqno )` ==> `self.index.remove(key, seqno, Tracked(fx))`
//@ SUBST `self . index . remove_weak ( key , seqno )` ==> `self.index.remove_weak(key, seqno, Tracked(fx))`
impl BlobTree {
//@ FROM src/blob_tree/mod.rs :: impl AbstractTree for BlobTree :: fn insert :: OBL C01.29
    fn insert(
        &self,
        key: UserKey,
        value: UserValue,
        seqno: SeqNo/*+*/,
        Tracked(fx): Tracked<&mut Fx>/*-*/,
    ) -> /*+*/(r:/*-*/ (u64, u64/*+*/))
        requires 0 < key@.len() <= u16::MAX, value@.len() <= u32::MAX
        ensures final(fx).log == old(fx).log.push((self.index.active(), Ent { key: key@, seqno, vt: 0, value: value@ })/*-*/)
    {
        self.index.insert(key, value, seqno, Tracked(fx))
    }
//@ END
//@ FROM src/blob_tree/mod.rs :: impl AbstractTree for BlobTree :: fn remove :: OBL C01.29, C13.3
    fn remove(&self, key: UserKey, seqno: SeqNo/*+*/, Tracked(fx): Tracked<&mut Fx>/*-*/) -> /*+*/(r:/*-*/ (u64, u64/*+*/))
        requires 0 < key@.len() <= u16::MAX
        ensures final(fx).log == old(fx).log.push((self.index.active(), Ent { key: key@, seqno, vt: 1, value: Seq::<u8>::empty() })/*-*/)
    {
        self.index.remove(key, seqno, Tracked(fx))
    }
//@ END
//@ FROM src/blob_tree/mod.rs :: impl AbstractTree for BlobTree :: fn remove_weak :: OBL C13.3
    fn remove_weak(&self, key: UserKey, seqno: SeqNo/*+*/, Tracked(fx): Tracked<&mut Fx>/*-*/) -> /*+*/(r:/*-*/ (u64, u64/*+*/))
        requires 0 < key@.len() <= u16::MAX
        ensures exists|vt: int| (vt == 1 || vt == 2) && final(fx).log == old(fx).log.push((self.index.active(), #[trigger] tomb_ent(key@, seqno, vt))/*-*/)
    {
        self.index.remove_weak(key, seqno, Tracked(fx))
    }
//@ END
}
}
fn main() {}
