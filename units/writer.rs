//@ UNIT writer
use vstd::prelude::*;
use vstd::std_specs::cmp::*;

macro_rules! fail_iter {
    ($e:expr) => {
        match $e {
            Ok(v) => v,
            Err(e) => return Some(Err(e)),
        }
    };
}

verus! {

global size_of usize == 8;

pub type SeqNo = u64;

#[verifier::external_body]
pub struct Key { inner: Vec<u8> }
impl Key { pub uninterp spec fn rank(&self) -> int; }
impl Clone for Key {
    #[verifier::external_body]
    fn clone(&self) -> (r: Self) ensures r.rank() == self.rank() { Key { inner: self.inner.clone() } }
}
impl PartialEq for Key {
    #[verifier::external_body]
    fn eq(&self, other: &Self) -> (r: bool) { self.inner == other.inner }
}
impl PartialEqSpecImpl for Key {
    open spec fn obeys_eq_spec() -> bool { true }
    open spec fn eq_spec(&self, other: &Self) -> bool { self.rank() == other.rank() }
}
impl PartialOrdSpecImpl for Key {
    open spec fn obeys_partial_cmp_spec() -> bool { true }
    open spec fn partial_cmp_spec(&self, other: &Self) -> Option<core::cmp::Ordering> {
        if self.rank() < other.rank() { Some(core::cmp::Ordering::Less) }
        else if self.rank() == other.rank() { Some(core::cmp::Ordering::Equal) }
        else { Some(core::cmp::Ordering::Greater) }
    }
}
impl PartialOrd for Key {
    #[verifier::external_body]
    fn partial_cmp(&self, other: &Self) -> (r: Option<core::cmp::Ordering>) { self.inner.partial_cmp(&other.inner) }
}
pub type UserKey = Key;

#[verifier::external_body]
pub struct UserValue { inner: Vec<u8> }

#[verifier::external_body]
pub struct Error { inner: u8 }

#[derive(Copy, Clone, PartialEq, Eq, Structural)]
pub enum ValueType { Value, Tombstone, WeakTombstone, Indirection }

impl ValueType {
    pub fn is_tombstone(self) -> (r: bool)
        ensures r == (self == ValueType::Tombstone || self == ValueType::WeakTombstone)
    {
        self == Self::Tombstone || self == Self::WeakTombstone
    }
}

pub struct InternalKey { pub user_key: UserKey, pub seqno: SeqNo, pub value_type: ValueType }
impl InternalKey {
    pub fn is_tombstone(&self) -> (r: bool) ensures r == (self.value_type == ValueType::Tombstone || self.value_type == ValueType::WeakTombstone) { self.value_type.is_tombstone() }
}
pub struct InternalValue { pub key: InternalKey, pub value: UserValue }
impl InternalValue {
    pub fn is_tombstone(&self) -> (r: bool) ensures r == (self.key.value_type == ValueType::Tombstone || self.key.value_type == ValueType::WeakTombstone) { self.key.is_tombstone() }
}

#[verifier::external]
impl std::fmt::Debug for InternalValue { fn fmt(&self, f: &mut std::fmt::Formatter<'_>) -> std::fmt::Result { Ok(()) } }
#[verifier::external]
impl std::fmt::Debug for Error { fn fmt(&self, f: &mut std::fmt::Formatter<'_>) -> std::fmt::Result { Ok(()) } }

pub assume_specification<T, E> [std::result::Result::<T, E>::expect_err] (r: std::result::Result<T, E>, msg: &str) -> (e: E)
    where T: std::fmt::Debug,
    requires r is Err,
    ensures e == r->Err_0;


impl Key {
    pub fn as_ref(&self) -> (r: &Key) ensures r == self { self }
    #[verifier::external_body]
    pub fn len(&self) -> (r: usize) ensures r <= 65535 { 0 }
}
impl UserValue {
    #[verifier::external_body]
    pub fn len(&self) -> (r: usize) ensures r <= 0xFFFF_FFFF { 0 }
}

pub struct Metadata {
    pub data_block_count: usize,
    pub item_count: usize,
    pub tombstone_count: usize,
    pub weak_tombstone_count: usize,
    pub weak_tombstone_reclaimable_count: usize,
    pub key_count: usize,
    pub first_key: Option<UserKey>,
    pub last_key: Option<UserKey>,
    pub lowest_seqno: SeqNo,
    pub highest_seqno: SeqNo,
}

/// prelude: bloom policy and filter writer (calls are logged)
pub struct BloomConstructionPolicy { pub active: bool }
impl BloomConstructionPolicy { pub fn is_active(&self) -> (r: bool) ensures r == self.active { self.active } }
pub struct FilterWriter { pub ghost keys: Seq<int> }
impl FilterWriter {
    #[verifier::external_body]
    pub fn register_key(&mut self, key: &UserKey) -> (r: Result<(), Error>)
        ensures r is Ok ==> final(self).keys == old(self).keys.push(key.rank()), r is Err ==> final(self).keys == old(self).keys
    { Ok(()) }
}

/// prelude: the owner struct reduced to the fields `write` touches (rule R8)
pub struct Writer {
    pub data_block_size: u32,
    pub filter_writer: FilterWriter,
    pub chunk: Vec<InternalValue>,
    pub chunk_size: usize,
    pub meta: Metadata,
    pub current_key: Option<UserKey>,
    pub bloom_policy: BloomConstructionPolicy,
    pub previous_item: Option<(UserKey, ValueType)>,
}

pub open spec fn pitem(o: Option<(UserKey, ValueType)>) -> Option<(int, ValueType)> { match o { Some((k, t)) => Some((k.rank(), t)), None => None } }
pub open spec fn okey(o: Option<UserKey>) -> Option<int> { match o { Some(k) => Some(k.rank()), None => None } }

impl Writer {
    pub open spec fn counters_small(&self) -> bool {
        self.meta.tombstone_count < 0x7fff_ffff_ffff && self.meta.weak_tombstone_count < 0x7fff_ffff_ffff
        && self.meta.weak_tombstone_reclaimable_count < 0x7fff_ffff_ffff && self.meta.key_count < 0x7fff_ffff_ffff
        && self.chunk_size < 0x7fff_ffff_ffff
    }

    #[verifier::external_body]
    pub(crate) fn spill_block(&mut self) -> (r: Result<(), Error>)
        ensures
            final(self).meta.lowest_seqno == old(self).meta.lowest_seqno, final(self).meta.highest_seqno == old(self).meta.highest_seqno,
            final(self).meta.tombstone_count == old(self).meta.tombstone_count, final(self).meta.weak_tombstone_count == old(self).meta.weak_tombstone_count,
            final(self).meta.weak_tombstone_reclaimable_count == old(self).meta.weak_tombstone_reclaimable_count,
            final(self).meta.key_count == old(self).meta.key_count, okey(final(self).meta.first_key) == okey(old(self).meta.first_key),
            okey(final(self).current_key) == okey(old(self).current_key), final(self).filter_writer.keys == old(self).filter_writer.keys,
            final(self).previous_item == old(self).previous_item,
    { Ok(()) }

    // ---- near-verbatim from /repo/src/table/writer/mod.rs ----
//@ FROM src/table/writer/mod.rs :: impl Writer :: fn write :: OBL C07.3, C12.6, C18.1
//@ SUBST `crate :: Result < ( ) >` ==> `Result<(), Error>`
    fn write(&mut self, item: InternalValue) -> /*+*/(r:/*-*/ Result<(), Error>/*+*/)
        requires old(self).counters_small(),
        ensures r is Ok ==> ({
            let o = *old(self); let n = *final(self);
            let dead = item.key.value_type == ValueType::Tombstone || item.key.value_type == ValueType::WeakTombstone;
            let newkey = okey(o.current_key) != Some(item.key.user_key.rank());
            &&& n.meta.tombstone_count == o.meta.tombstone_count + (if dead { 1int } else { 0 })
            &&& n.meta.weak_tombstone_count == o.meta.weak_tombstone_count + (if item.key.value_type == ValueType::WeakTombstone { 1int } else { 0 })
            &&& n.meta.key_count == o.meta.key_count + (if newkey { 1int } else { 0 })
            &&& okey(n.current_key) == Some(item.key.user_key.rank())
            &&& okey(n.meta.first_key) == (if o.meta.first_key is Some { okey(o.meta.first_key) } else { Some(item.key.user_key.rank()) })
            &&& n.meta.lowest_seqno == (if item.key.seqno < o.meta.lowest_seqno { item.key.seqno } else { o.meta.lowest_seqno })
            &&& n.meta.highest_seqno == (if item.key.seqno > o.meta.highest_seqno { item.key.seqno } else { o.meta.highest_seqno })     // C18.1
            &&& n.filter_writer.keys == (if newkey && o.bloom_policy.active { o.filter_writer.keys.push(item.key.user_key.rank()) } else { o.filter_writer.keys })
            // a weak tombstone directly followed by a value of the same key is reclaimable - wherever block boundaries fall
            &&& n.meta.weak_tombstone_reclaimable_count == o.meta.weak_tombstone_reclaimable_count + (if item.key.value_type == ValueType::Value && pitem(o.previous_item) == Some((item.key.user_key.rank(), ValueType::WeakTombstone)) { 1int } else { 0 })
            &&& pitem(n.previous_item) == Some((item.key.user_key.rank(), item.key.value_type))
        }),/*-*/
    {
        let value_type = item.key.value_type;
        let seqno = item.key.seqno;
        let user_key = item.key.user_key.clone();
        let value_len = item.value.len();

        if item.is_tombstone() {
            self.meta.tombstone_count += 1;
        }

        if value_type == ValueType::WeakTombstone {
            self.meta.weak_tombstone_count += 1;
        }

        if value_type == ValueType::Value {
            if let Some((prev_key, prev_type)) = &self.previous_item {
                if prev_type == &ValueType::WeakTombstone && prev_key.as_ref() == user_key.as_ref()
                {
                    self.meta.weak_tombstone_reclaimable_count += 1;
                }
            }
        }

        // NOTE: Check if we visit a new key
        if Some(&user_key) != self.current_key.as_ref() {
            self.meta.key_count += 1;
            self.current_key = Some(user_key.clone());

            // IMPORTANT: Do not buffer *every* item's key
            // because there may be multiple versions
            // of the same key

            if self.bloom_policy.is_active() {
                self.filter_writer.register_key(&user_key)?;
            }
        }

        if self.meta.first_key.is_none() {
            self.meta.first_key = Some(user_key.clone());
        }

        self.chunk_size += user_key.len() + value_len;
        self.chunk.push(item);
        self.previous_item = Some((user_key, value_type));

        if self.chunk_size >= self.data_block_size as usize {
            self.spill_block()?;
        }

        self.meta.lowest_seqno = self.meta.lowest_seqno.min(seqno);
        self.meta.highest_seqno = self.meta.highest_seqno.max(seqno);

        Ok(())
    }
//@ END
}

} // verus!
fn main() {}
